#!/bin/sh
# Build the overlay venv used by ./check (offline; wheelhouse only).
set -e
cd "$(dirname "$0")"
if [ ! -x .venv/bin/python ] || ! .venv/bin/python -c "import z3" 2>/dev/null; then
    rm -rf .venv
    /venv/bin/python -m venv .venv
    SP=$(.venv/bin/python -c "import sysconfig; print(sysconfig.get_paths()['purelib'])")
    echo "import site; site.addsitedir('/venv/lib/python3.12/site-packages')" > "$SP/_overlay.pth"
    PIP_NO_INDEX=1 .venv/bin/pip install -q --no-index --find-links /opt/veriftools/wheels z3-solver
fi
.venv/bin/python -c "import z3; print('z3', z3.get_version_string())"
