#!/usr/bin/env python3
"""Regenerate MANIFEST.json from the harness modules that exist (harness/cXX.py with META)."""
import importlib
import json
import os
import sys

ROOT = os.path.dirname(os.path.dirname(os.path.abspath(__file__)))
sys.path.insert(0, ROOT)
props = [json.loads(l) for l in open(os.path.join(ROOT, "properties.jsonl"))]
checks, na, served = [], [], []
NA_REASONS = {}
if os.path.exists(os.path.join(ROOT, "tools", "not_applicable.json")):
    NA_REASONS = json.load(open(os.path.join(ROOT, "tools", "not_applicable.json")))
for p in props:
    pid = p["id"]
    path = os.path.join(ROOT, "harness", pid.lower() + ".py")
    meta = None
    if os.path.exists(path):
        src = open(path).read()
        if "CLAIMED = True" in src:
            # META is plain data; evaluate the module without importing canopen
            mod = importlib.import_module("harness." + pid.lower())
            meta = mod.META
    if meta is None:
        na.append(dict(property_id=pid, reason=NA_REASONS.get(pid, "check under construction in this "
                       "session; not claimed yet")))
        continue
    served.append(pid)
    checks.append(dict(
        property_id=pid,
        quick_cmd="./check %s --tier quick" % pid,
        thorough_cmd="./check %s --tier thorough" % pid,
        evidence_file="evidence/%s.json" % pid,
        replay_cmd_template="./check %s --replay {path}" % pid,
        engine="symx",
        level_claimed=dict(category="model_checking", text=meta["level_text"],
                           design_ref="DESIGN.md section 6, %s" % pid),
        level_note=meta["level_note"],
        technique=meta.get("technique", "bounded symbolic execution of the real canopen source with z3 "
                           "(proxy values, all feasible paths, solver-discharged obligations, native replay)"),
    ))
m = dict(
    version=1, setup_cmd="./setup.sh",
    hooks=dict(guard="CANOPEN_VERIF",
               enable="no hooks are needed: the symx loader instruments /repo/canopen from outside at import "
                      "time (reserved, unused variable)",
               baseline_off_cmd="cd /repo && /venv/bin/python -m pytest -ra -q -p no:cacheprovider --timeout=900 "
                                "--continue-on-collection-errors",
               source_commits=[], add_only=True),
    engines=[dict(name="symx", path="symx/", serves_properties=served,
                  kind_free_text="proxy-based symbolic execution of the real canopen source with z3: "
                                 "SymInt/SymBool/SymBytes/SymFloat proxies, substituted builtins and stdlib "
                                 "models, DFS over all feasible paths, obligations discharged by the solver, "
                                 "counterexamples and path witnesses replayed on the unmodified package")],
    checks=checks, not_applicable=na,
    notes="Exit codes of ./check: 0 held within bounds, 1 VIOLATION (reproduced natively, not a listed known "
          "finding), 2 INCONCLUSIVE, 3 ENGINE-MISMATCH. known_findings.json lists genuine defects "
          "(fixed: with the /repo commit).")
json.dump(m, open(os.path.join(ROOT, "MANIFEST.json"), "w"), indent=1)
print("claimed:", served)
