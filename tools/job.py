#!/usr/bin/env python3
"""Run one harness job in-process and print a summary: tools/job.py c17 history '{"producer":"hb","k":2}' [max_paths] [timeout_s]"""
import json, sys, time
sys.path.insert(0, "/verif")
from symx import runner
h, f, p = sys.argv[1], sys.argv[2], json.loads(sys.argv[3])
mp = int(sys.argv[4]) if len(sys.argv) > 4 else 100000
to = int(sys.argv[5]) if len(sys.argv) > 5 else 600
t = time.time()
r = runner.run_job(dict(harness=h, func=f, params=p, limits=dict(max_paths=mp, job_timeout_s=to, max_decisions=50000), validate_every=50))
print(h, f, p, "paths", r["paths"], "vio", sorted(set(v["key"] + ("" if v.get("reproduced") else " (NOT reproduced)") for v in r["violations"]))[:8],
      "inc", r["inconclusive"][:2], "mism", [m["problem"][:300] for m in r["mismatches"][:2]], "t", round(time.time() - t, 1),
      "solver", round(r["stats"].get("solver_s", 0), 1), "dec", r["stats"].get("decisions"))
if "-v" in sys.argv:
    for v in r["violations"][:3]:
        print(json.dumps(v, indent=1)[:3000])
