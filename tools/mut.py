#!/usr/bin/env python3
"""Sensitivity self-test: apply a small source mutation to a scratch copy of /repo, confirm the
repo's own tests still pass (optional), run a check against the copy with VERIF_REPO.
usage: tools/mut.py mutants/<name>.json [--tests] | tools/mut.py --all [Cxx]"""
import glob
import json
import os
import shutil
import subprocess
import sys
import tempfile

ROOT = os.path.dirname(os.path.dirname(os.path.abspath(__file__)))


def run_one(path, tests=False, tier="quick"):
    m = json.load(open(path))
    d = tempfile.mkdtemp(prefix="canopen-mut-")
    try:
        shutil.copytree("/repo/canopen", os.path.join(d, "canopen"))
        shutil.copytree("/repo/test", os.path.join(d, "test"))
        for e in m["edits"]:
            fp = os.path.join(d, e["file"])
            s = open(fp).read()
            if s.count(e["old"]) != 1:
                return m, "BAD-MUTANT(old text occurs %d times in %s)" % (s.count(e["old"]), e["file"]), None
            open(fp, "w").write(s.replace(e["old"], e["new"]))
        tres = None
        if tests:
            r = subprocess.run(["/venv/bin/python", "-m", "pytest", "-q", "-x", "-p", "no:cacheprovider", "test"],
                               cwd=d, capture_output=True, text=True, env=dict(os.environ, PYTHONPATH=d))
            tres = r.stdout.strip().splitlines()[-1] if r.stdout.strip() else r.stderr[-200:]
        env = dict(os.environ, VERIF_REPO=d)
        r = subprocess.run([os.path.join(ROOT, "check"), m["property"], "--tier", tier, "--no-evidence"],
                           capture_output=True, text=True, env=env)
        keys = sorted(set(l.split("#")[-1].strip() for l in r.stdout.splitlines() if l.startswith("VIOLATION")))
        return m, "exit=%d %s" % (r.returncode, keys[:4] if keys else r.stdout.strip().splitlines()[-3:]), tres
    finally:
        shutil.rmtree(d, ignore_errors=True)


def main():
    args = sys.argv[1:]
    tests = "--tests" in args
    args = [a for a in args if a != "--tests"]
    if args and args[0] == "--all":
        pat = args[1].upper() if len(args) > 1 else ""
        paths = sorted(glob.glob(os.path.join(ROOT, "mutants", "*.json")))
        paths = [p for p in paths if pat in os.path.basename(p).upper()]
    else:
        paths = args
    for p in paths:
        m, res, tres = run_one(p, tests)
        print("%-40s %s%s" % (os.path.basename(p), res, ("  tests: %s" % tres) if tres else ""))


if __name__ == "__main__":
    main()
