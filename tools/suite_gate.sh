#!/bin/sh
# Translator validation: the repository's own test-suite must pass against the package as loaded by
# the symx loader (AST rewrite + substituted builtins + struct/bytes/dict models).
REPO="${VERIF_REPO:-/repo}"
cd "$REPO" && PYTHONPATH=/verif PYTHONDONTWRITEBYTECODE=1 /verif/.venv/bin/python -m pytest -q -p no:cacheprovider -p symx.suite_plugin test 2>&1 | tail -3
