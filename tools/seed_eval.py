#!/usr/bin/env python3
"""Evaluate a seeded breaking change: tools/seed_eval.py <Cxx> <i> [--keep]
Takes /tmp/seed-<Cxx>-out/{patch<i>.diff,demo<i>.py,notes<i>.md}; confirms in a scratch copy that the repo
tests pass with the patch, the demo fails with it and passes without; runs ./check <Cxx> against the
patched copy; with --keep stores everything under /verif/seeded/<Cxx>-<i>/."""
import json, os, shutil, subprocess, sys, tempfile

ROOT = "/verif"
pid, i = sys.argv[1], sys.argv[2]
keep = "--keep" in sys.argv
rnd = ""
if "--round" in sys.argv:
    rnd = sys.argv[sys.argv.index("--round") + 1] + "-"
rev = None
if "--rev" in sys.argv:
    rev = sys.argv[sys.argv.index("--rev") + 1]
checks = [a for a in sys.argv[3:] if a.startswith("C") and len(a) == 3 and a[1:].isdigit()] or [pid]
src = "/tmp/seed-%s-out" % pid
patch, demo, notes = ("%s/%s%s%s" % (src, n, i, e) for n, e in (("patch", ".diff"), ("demo", ".py"), ("notes", ".md")))
d = tempfile.mkdtemp(prefix="canopen-seed-")
res = {}
try:
    if rev:
        subprocess.run("git -C /repo archive %s canopen test | tar -x -C %s" % (rev, d), shell=True, check=True)
        res["repo_rev"] = rev
    else:
        for sub in ("canopen", "test"):
            shutil.copytree("/repo/" + sub, os.path.join(d, sub))
        res["repo_rev"] = subprocess.run(["git", "-C", "/repo", "log", "--format=%h", "-1"], capture_output=True,
                                         text=True).stdout.strip()
    env = dict(os.environ, PYTHONPATH=d)
    r = subprocess.run(["/venv/bin/python", demo], cwd=d, env=env, capture_output=True, text=True)
    res["demo_without_patch"] = r.returncode
    r = subprocess.run(["patch", "-p1", "-i", patch], cwd=d, capture_output=True, text=True)
    res["patch_applied"] = r.returncode == 0
    if r.returncode:
        print(r.stdout, r.stderr, file=sys.stderr)
    r = subprocess.run(["/venv/bin/python", "-m", "pytest", "-q", "-p", "no:cacheprovider", "test"], cwd=d, env=env,
                       capture_output=True, text=True)
    res["repo_tests_with_patch"] = (r.stdout.strip().splitlines() or ["?"])[-1]
    r = subprocess.run(["/venv/bin/python", demo], cwd=d, env=env, capture_output=True, text=True)
    res["demo_with_patch"] = r.returncode
    res["checks"] = {}
    for c in checks:
        r = subprocess.run([ROOT + "/check", c, "--tier", "quick", "--no-evidence"], capture_output=True, text=True,
                           env=dict(os.environ, VERIF_REPO=d))
        keys = sorted(set(l.split("#")[-1].strip() for l in r.stdout.splitlines() if l.startswith("VIOLATION")))
        res["checks"][c] = dict(exit=r.returncode, keys=keys[:8], tail=r.stdout.strip().splitlines()[-2:] if not keys else [])
finally:
    shutil.rmtree(d, ignore_errors=True)
print(json.dumps(res, indent=1))
if keep:
    out = os.path.join(ROOT, "seeded", "%s-%s%s" % (pid, rnd, i))
    os.makedirs(out, exist_ok=True)
    shutil.copy(patch, os.path.join(out, "patch.diff"))
    shutil.copy(demo, os.path.join(out, "demo.py"))
    note = open(notes).read() if os.path.exists(notes) else ""
    json.dump(dict(property=pid, breaks=note[:1500], confirmed=res,
                   ran=["repo tests with patch", "demo without patch (exit 0)", "demo with patch (exit != 0)",
                        "./check %s --tier quick with VERIF_REPO=<patched copy>" % " ".join(checks)]),
              open(os.path.join(out, "meta.json"), "w"), indent=1)
