"""Harness-facing API.  The same harness source runs in symbolic mode (proxies + solver) and in
concrete mode (plain Python values taken from a solver model, native canopen package)."""
import z3

from . import core, symbytes, symfloat, symstr, loader
from .core import S, SymInt, SymBool, PathAbort, Unsupported, Inconclusive
from .env import ENV


class Concrete:
    """State of a concrete (replay / witness) run."""

    def __init__(self, inputs):
        self.inputs = inputs
        self.fresh_count = {}
        self.observations = []
        self.failed = []          # [(label, key)]
        self.reach = set()
        self.missing = []

    def name(self, name):
        k = self.fresh_count.get(name, 0)
        self.fresh_count[name] = k + 1
        return name if k == 0 else "%s#%d" % (name, k)

    def get(self, name, default):
        nm = self.name(name)
        if nm in self.inputs:
            return self.inputs[nm]
        self.missing.append(nm)
        return default


class _Mode:
    conc = None


M = _Mode()


def symbolic():
    return S.ctx is not None


# ---- inputs --------------------------------------------------------------------------------
def fresh_int(name, lo, hi):
    if S.ctx is not None:
        return S.ctx.fresh_int(name, lo, hi)
    return int(M.conc.get(name, lo))


def fresh_byte(name):
    if S.ctx is not None:
        return S.ctx.fresh_int(name, 0, 255, bits=8)
    return int(M.conc.get(name, 0))


def fresh_bytes(name, n):
    if S.ctx is not None:
        return symbytes.fresh_bytes(name, n)
    return bytes(int(M.conc.get("%s[%d]" % (name, i), 0)) for i in range(n))


def fresh_bool(name):
    if S.ctx is not None:
        return S.ctx.fresh_bool(name)
    return bool(M.conc.get(name, False))


def fresh_float(name):
    if S.ctx is not None:
        return symfloat.fresh_float(name)
    return float(M.conc.get(name, 0.0))


def fresh_str(name, n, lo=0, hi=0x10FFFF):
    if S.ctx is not None:
        return symstr.fresh_str(name, n, lo, hi)
    return "".join(chr(int(M.conc.get("%s[%d]" % (name, i), lo))) for i in range(n))


def choice(n, label="choice"):
    """A selector in 0..n-1, decided now (n-way fork in symbolic mode)."""
    if n <= 1:
        return 0
    if S.ctx is not None:
        v = S.ctx.fresh_int("?" + label, 0, n - 1)
        return S.ctx.concretize(v)
    return int(M.conc.get("?" + label, 0))


def concretize(x):
    if isinstance(x, (SymInt, SymBool)):
        return S.ctx.concretize(x)
    return x


# ---- constraints and obligations ----------------------------------------------------------------
def assume(c):
    if S.ctx is not None:
        S.ctx.assume(c)
    elif not c:
        raise PathAbort("assumption false in concrete run")


def prove(c, label, key=None, detail=None):
    if S.ctx is not None:
        return S.ctx.prove(c, label, key, detail)
    if not c:
        M.conc.failed.append((label, key or label))
        return False
    return True


def fail(label, key=None, detail=None):
    """An obligation that is violated whenever this point is reached."""
    return prove(False, label, key, detail)


def reach(label):
    if S.ctx is not None:
        S.ctx.reach.add(label)
    else:
        M.conc.reach.add(label)


def not_applicable(label, reason):
    """A scenario that is built on implementation internals found them restructured: its reach marker counts as
    satisfied (the end-to-end scenarios still decide the property) and the fact is visible in the evidence."""
    reach(label)
    reach("n/a:%s (%s)" % (label, reason))


def observe(label, value):
    if S.ctx is not None:
        S.ctx.observations.append((label, value))
    else:
        M.conc.observations.append((label, value))


# ---- value helpers usable in both modes -----------------------------------------------------------
def ite(c, a, b):
    if isinstance(c, SymBool):
        la, lb = core._lift(a), core._lift(b)
        if la is not None and lb is not None:
            return core.mk(z3.If(c.t, la.t, lb.t), min(la.lo, lb.lo), max(la.hi, lb.hi)) \
                if not (la.lo == la.hi == lb.lo == lb.hi) else la.lo
        raise Unsupported("ite over non-integer values")
    return a if c else b


def ite_bool(c, a, b):
    if isinstance(c, SymBool) or isinstance(a, SymBool) or isinstance(b, SymBool):
        return (c & a) | (not_(c) & b)
    return a if c else b


def not_(c):
    if isinstance(c, SymBool):
        return ~c
    return not c


def implies(a, b):
    return not_(a) | b


def all_(seq):
    r = True
    for c in seq:
        r = r & c
    return r


def any_(seq):
    r = False
    for c in seq:
        r = r | c
    return r


def eq_bytes(a, b):
    """Non-forking equality of two byte sequences (length compared concretely)."""
    ia, ib = symbytes._items_of(a), symbytes._items_of(b)
    if ia is None or ib is None or len(ia) != len(ib):
        return False
    return all_([x == y for x, y in zip(ia, ib)])


def items(b):
    return symbytes._items_of(b)


def mkbytes(items):
    return symbytes.mkbytes(list(items))


def cps(s):
    """code points of a (symbolic) string"""
    return symstr._cps_of(s)


def mkstr(cps_):
    return symstr.mkstr(list(cps_))


def is_symbolic(x):
    return isinstance(x, (SymInt, SymBool, symbytes.SymBytes, symbytes.SymByteArray,
                          symfloat.SymFloat, symstr.SymStr))


def le_int(items, signed=False):
    """Little-endian integer of byte items (spec-side helper, independent of struct model)."""
    v = 0
    for i, b in enumerate(items):
        v = v | (b << (8 * i))
    if signed:
        bits = 8 * len(items)
        sign = (v >> (bits - 1)) & 1
        v = v - (sign << bits)
    return v


def byte_of(v, i):
    """i-th little-endian byte of a (two's complement) integer, spec side."""
    return (v >> (8 * i)) & 0xFF


# ---- modules ------------------------------------------------------------------------------------
def mod(name):
    """The canopen module `name` of the active package set (symbolic or native)."""
    import sys
    return sys.modules[name]


def env():
    return ENV


# ---- floating point helpers (spec side) ---------------------------------------------------------
import struct as _struct


def f64_bits(x):
    if isinstance(x, symfloat.SymFloat):
        return x.bits()
    return _struct.unpack("<Q", _struct.pack("<d", float(x)))[0]


def f32_bits(x):
    """IEEE binary32 image of x rounded to nearest-even (x assumed not to overflow)."""
    if isinstance(x, symfloat.SymFloat):
        f32 = z3.fpToFP(symfloat.RNE, x.t, symfloat.F32)
        return SymInt(z3.ZeroExt(core.W - 32, z3.fpToIEEEBV(f32)), 0, (1 << 32) - 1)
    return _struct.unpack("<L", _struct.pack("<f", float(x)))[0]


def f32_exact(x):
    """x is exactly representable as binary32."""
    if isinstance(x, symfloat.SymFloat):
        back = z3.fpToFP(symfloat.RNE, z3.fpToFP(symfloat.RNE, x.t, symfloat.F32), symfloat.F64)
        return SymBool(z3.Or(z3.fpEQ(back, x.t), z3.fpIsNaN(x.t)))
    try:
        y = _struct.unpack("<f", _struct.pack("<f", float(x)))[0]
    except OverflowError:
        return False
    return y == x or x != x


def f32_overflows(x):
    """finite double whose binary32 rounding is infinite (struct 'f' raises OverflowError)."""
    if isinstance(x, symfloat.SymFloat):
        f32 = z3.fpToFP(symfloat.RNE, x.t, symfloat.F32)
        return SymBool(z3.And(z3.fpIsInf(f32), z3.Not(z3.fpIsInf(x.t))))
    try:
        _struct.pack("<f", float(x))
    except OverflowError:
        return True
    return False


def fisnan(x):
    if isinstance(x, symfloat.SymFloat):
        return x.isnan()
    return x != x


def fisinf(x):
    if isinstance(x, symfloat.SymFloat):
        return x.isinf()
    return x in (float("inf"), float("-inf"))


def is_float(x):
    return isinstance(x, (float, symfloat.SymFloat))


def new_dict(items=()):
    """a dict in the active mode (solver-aware SymDict when symbolic)"""
    if S.ctx is not None:
        from .symdict import SymDict
        return SymDict(items)
    return dict(items)


def new_bytearray(items=()):
    if S.ctx is not None:
        return symbytes.SymByteArray(list(items))
    return bytearray(items)


def scheduler(preempt=0, only=None, delay=False, lines=True):
    """install a deterministic thread scheduler for the lock/condition models (see symx.sched);
    preempt=k additionally explores up to k preemptions at source-line granularity inside canopen code"""
    from .sched import Scheduler
    return Scheduler(preempt, only, delay, lines)
