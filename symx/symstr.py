"""SymStr: text as a list of code points (int | SymInt) of concrete length on a path.
Only what the CANopen string codecs need: encode ascii / utf_16_le, decode of both with
errors='ignore' or 'strict', rstrip of NUL, equality.  A fully concrete value is a real str."""
import z3

from .core import SymInt, SymBool, Unsupported, ctx


def mkstr(cps):
    if all(type(c) is int for c in cps):
        return "".join(chr(c) for c in cps)
    return SymStr(cps)


def _cps_of(x):
    if isinstance(x, SymStr):
        return list(x._cps)
    if isinstance(x, str):
        return [ord(c) for c in x]
    return None


def _norm_enc(e):
    return e.lower().replace("-", "_")


class SymStr:
    __slots__ = ("_cps",)

    def __init__(self, cps):
        self._cps = list(cps)

    def __len__(self):
        return len(self._cps)

    def __iter__(self):
        return iter(mkstr([c]) for c in self._cps)

    def __getitem__(self, i):
        if isinstance(i, slice):
            return mkstr(self._cps[i])
        return mkstr([self._cps[i]])

    def __bool__(self):
        return bool(self._cps)

    def __add__(self, o):
        c = _cps_of(o)
        if c is None:
            return NotImplemented
        return mkstr(self._cps + c)

    def __radd__(self, o):
        c = _cps_of(o)
        if c is None:
            return NotImplemented
        return mkstr(c + self._cps)

    def __eq__(self, o):
        c = _cps_of(o)
        if c is None:
            return False
        if len(c) != len(self._cps):
            return False
        conj = []
        for a, b in zip(self._cps, c):
            r = (a == b)
            if r is False:
                return False
            if r is True:
                continue
            conj.append(r.t)
        if not conj:
            return True
        return SymBool(z3.And(*conj) if len(conj) > 1 else conj[0])

    def __ne__(self, o):
        r = self.__eq__(o)
        return ~r if isinstance(r, SymBool) else (not r)

    def __hash__(self):
        return hash("".join(chr(c.__index__()) for c in self._cps))

    def __repr__(self):
        return "<SymStr len=%d>" % len(self._cps)

    __str__ = __repr__

    def __format__(self, spec):
        return repr(self)

    def __contains__(self, sub):
        c = _cps_of(sub)
        if c is None:
            raise TypeError("'in <string>' requires string as left operand")
        n, m = len(self._cps), len(c)
        for i in range(n - m + 1):
            if mkstr(self._cps[i:i + m]) == sub:
                return True
        return False

    def rstrip(self, chars=None):
        if chars is None:
            raise Unsupported("SymStr.rstrip() of whitespace")
        cs = [ord(c) for c in chars]
        cps = list(self._cps)
        while cps:
            last = cps[-1]
            hit = False
            for c in cs:
                if last == c:
                    hit = True
                    break
            if not hit:
                break
            cps.pop()
        return mkstr(cps)

    def encode(self, encoding="utf-8", errors="strict"):
        from .symbytes import mkbytes
        enc = _norm_enc(encoding)
        out = []
        if enc in ("ascii", "us_ascii"):
            for i, c in enumerate(self._cps):
                if c < 128:
                    out.append(c)
                else:
                    raise UnicodeEncodeError("ascii", "?" * len(self._cps), i, i + 1,
                                             "ordinal not in range(128)")
            return mkbytes(out)
        if enc in ("utf_16_le", "utf_16le", "utf_16", "utf16"):
            if enc in ("utf_16", "utf16"):
                out.extend([0xFF, 0xFE])          # byte order mark, native (little-endian) order
            for i, c in enumerate(self._cps):
                if c < 0xD800 or ((c >= 0xE000) & (c < 0x10000)):
                    out.append(c & 0xFF)
                    out.append(c >> 8)
                elif c < 0xE000:
                    raise UnicodeEncodeError("utf-16-le", "?" * len(self._cps), i, i + 1,
                                             "surrogates not allowed")
                else:
                    v = c - 0x10000
                    hi = 0xD800 + (v >> 10)
                    lo = 0xDC00 + (v & 0x3FF)
                    out.extend([hi & 0xFF, hi >> 8, lo & 0xFF, lo >> 8])
            return mkbytes(out)
        raise Unsupported("SymStr.encode(%r)" % encoding)

    def __getattr__(self, name):
        # a str method this proxy does not model: inconclusive, not a crash that looks like a finding
        if hasattr(str, name) and not name.startswith("__"):
            raise Unsupported("SymStr.%s" % name)
        raise AttributeError(name)

    def _find(self, sep):
        c = _cps_of(sep)
        if c is None:
            raise TypeError("must be str")
        if len(c) != 1:
            raise Unsupported("SymStr search for a separator of %d characters" % len(c))
        for i, ch in enumerate(self._cps):
            if ch == c[0]:          # forks on a symbolic character
                return i
        return -1

    def partition(self, sep):
        i = self._find(sep)
        if i < 0:
            return (self, "", "")
        return (mkstr(self._cps[:i]), sep, mkstr(self._cps[i + 1:]))

    def rpartition(self, sep):
        c = _cps_of(sep)
        if c is None or len(c) != 1:
            raise Unsupported("SymStr.rpartition")
        for i in range(len(self._cps) - 1, -1, -1):
            if self._cps[i] == c[0]:
                return (mkstr(self._cps[:i]), sep, mkstr(self._cps[i + 1:]))
        return ("", "", self)

    def find(self, sub, *a):
        if a:
            raise Unsupported("SymStr.find with bounds")
        return self._find(sub)

    def index(self, sub, *a):
        i = self.find(sub, *a)
        if i < 0:
            raise ValueError("substring not found")
        return i

    def startswith(self, prefix):
        c = _cps_of(prefix)
        if c is None:
            raise Unsupported("SymStr.startswith(tuple)")
        return len(c) <= len(self._cps) and bool(mkstr(self._cps[:len(c)]) == prefix)

    def endswith(self, suffix):
        c = _cps_of(suffix)
        if c is None:
            raise Unsupported("SymStr.endswith(tuple)")
        return len(c) <= len(self._cps) and bool(mkstr(self._cps[len(self._cps) - len(c):]) == suffix)

    def lstrip(self, chars=None):
        if chars is None:
            raise Unsupported("SymStr.lstrip() of whitespace")
        cs = [ord(c) for c in chars]
        cps = list(self._cps)
        while cps:
            hit = False
            for c in cs:
                if cps[0] == c:
                    hit = True
                    break
            if not hit:
                break
            cps.pop(0)
        return mkstr(cps)

    def lower(self):
        raise Unsupported("SymStr.lower")

    upper = lower
    split = lower
    replace = lower
    casefold = lower

    def strip(self, chars=None):
        if chars is None:
            raise Unsupported("SymStr.strip() of whitespace")
        r = self.rstrip(chars)
        return r.lstrip(chars) if isinstance(r, SymStr) else r.lstrip(chars)


def decode(items, encoding="utf-8", errors="strict"):
    """bytes.decode for a list of byte items (int | SymInt)."""
    if all(type(b) is int for b in items):
        return bytes(items).decode(encoding, errors)
    enc = _norm_enc(encoding)
    if errors not in ("strict", "ignore"):
        raise Unsupported("decode errors=%r" % errors)
    cps = []
    if enc in ("ascii", "us_ascii"):
        for i, b in enumerate(items):
            if b < 128:
                cps.append(b)
            elif errors == "strict":
                raise UnicodeDecodeError("ascii", b"?" * len(items), i, i + 1,
                                         "ordinal not in range(128)")
        return mkstr(cps)
    if enc in ("utf_16", "utf16"):
        # a byte order mark selects the byte order and is consumed; without one the native order
        # (little-endian) applies
        if len(items) >= 2:
            u0 = items[0] | (items[1] << 8)
            if u0 == 0xFEFF:
                return decode(items[2:], "utf_16_le", errors)
            if u0 == 0xFFFE:
                raise Unsupported("big-endian UTF-16 of symbolic bytes")
        return decode(items, "utf_16_le", errors)
    if enc in ("utf_16_le", "utf_16le"):
        n = len(items)
        i = 0
        while i + 1 < n:
            u = items[i] | (items[i + 1] << 8)
            if u < 0xD800 or u >= 0xE000:
                cps.append(u)
                i += 2
            elif u < 0xDC00:
                # high surrogate: needs a following low surrogate
                if i + 3 < n:
                    u2 = items[i + 2] | (items[i + 3] << 8)
                    if (u2 >= 0xDC00) & (u2 < 0xE000):
                        cps.append(0x10000 + ((u - 0xD800) << 10) + (u2 - 0xDC00))
                        i += 4
                        continue
                    if errors == "strict":
                        raise UnicodeDecodeError("utf-16-le", b"?" * n, i, i + 2, "illegal UTF-16 surrogate")
                    i += 2
                else:
                    if errors == "strict":
                        raise UnicodeDecodeError("utf-16-le", b"?" * n, i, n, "unexpected end of data")
                    # truncated pair at the end of data: CPython reports (i, len) => all ignored
                    i = n
            else:
                if errors == "strict":
                    raise UnicodeDecodeError("utf-16-le", b"?" * n, i, i + 2, "illegal encoding")
                i += 2
        if i < n and errors == "strict":
            raise UnicodeDecodeError("utf-16-le", b"?" * n, i, n, "truncated data")
        return mkstr(cps)
    raise Unsupported("decode(%r) of symbolic bytes" % encoding)


def fresh_str(name, n, lo=0, hi=0x10FFFF):
    c = ctx()
    return mkstr([c.fresh_int("%s[%d]" % (name, i), lo, hi) for i in range(n)])
