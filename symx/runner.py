"""Job execution: DFS path exploration of a harness function, witness cross-checks against the
native package, violation replay, aggregation."""
import hashlib
import importlib
import json
import os
import sys
import time
import traceback

import z3

from . import core, api, loader
from .core import S, Context, PathAbort, Unsupported, Inconclusive
from .env import ENV

_FUNCS = set()
_MON = [False]


def _monitor_on():
    if _MON[0]:
        return
    mon = sys.monitoring
    tool = 3
    try:
        mon.use_tool_id(tool, "symx")
    except ValueError:
        return
    prefix = os.path.join(os.path.realpath(loader.REPO), "canopen") + os.sep

    def cb(code, offset):
        fn = code.co_filename
        if not code.co_flags & 1:
            return mon.DISABLE
        if fn.startswith(prefix) or os.path.realpath(fn).startswith(prefix):
            if loader.active() != "native":
                _FUNCS.add("%s:%s" % (os.path.relpath(os.path.realpath(fn), os.path.realpath(loader.REPO)),
                                      code.co_qualname))
        return mon.DISABLE

    mon.register_callback(tool, mon.events.PY_START, cb)
    mon.set_events(tool, mon.events.PY_START)
    _MON[0] = True


def _jsonable(v):
    if isinstance(v, (bytes, bytearray)):
        return {"hex": bytes(v).hex()}
    if isinstance(v, float):
        return v if v == v and abs(v) != float("inf") else repr(v)
    if isinstance(v, (list, tuple)):
        return [_jsonable(e) for e in v]
    if isinstance(v, dict):
        return {str(k): _jsonable(e) for k, e in v.items()}
    if isinstance(v, (int, str, bool)) or v is None:
        return v
    return repr(v)


def _norm(v):
    """Normalise an observation for symbolic/native comparison."""
    if isinstance(v, (bytes, bytearray)):
        return ("b", bytes(v).hex())
    if isinstance(v, bool):
        return ("i", int(v))
    if isinstance(v, int):
        return ("i", v)
    if isinstance(v, float):
        if v != v:
            return ("f", "nan")
        return ("f", v.hex())
    if isinstance(v, (list, tuple)):
        return ("l", [_norm(e) for e in v])
    if isinstance(v, dict):
        return ("d", sorted((str(k), _norm(e)) for k, e in v.items()))
    if v is None:
        return ("n",)
    return ("s", str(v))


def run_concrete(func, params, inputs):
    """Run harness `func` natively with the given inputs; returns the Concrete state and the
    escaping exception (or None)."""
    saved_ctx = S.ctx
    S.ctx = None
    prev_active = loader.active()
    conc = api.Concrete(inputs)
    api.M.conc = conc
    loader.activate("native")
    ENV.reset()
    exc = None
    try:
        func(**params)
    except PathAbort:
        exc = None
    except Exception as e:          # noqa: BLE001 - reported to the caller
        exc = e
    finally:
        api.M.conc = None
        S.ctx = saved_ctx
        if prev_active and prev_active != "native":
            loader.activate(prev_active)
        ENV.reset()
    return conc, exc


def explore(func, params, limits, seed=0, validate_every=1, max_validate=400):
    """Explore all paths of func(**params). Returns a result dict."""
    _monitor_on()
    loader.activate("sym")
    ctx = Context(query_timeout_ms=limits.get("query_timeout_ms", 20000),
                  max_decisions=limits.get("max_decisions", 4000),
                  concretize_cap=limits.get("concretize_cap", 300), seed=seed)
    ctx.fast_ms = limits.get("fast_ms", 3000)
    ctx.crosscheck_every = limits.get("crosscheck_every", 0)
    ctx.crosscheck_max = limits.get("crosscheck_max", 0)
    max_paths = limits.get("max_paths", 200000)
    deadline = time.time() + limits.get("job_timeout_s", 3600)
    res = dict(paths=0, violations=[], inconclusive=[], mismatches=[], validated=0, samples=[],
               reach=[], uncaught=[])
    prefix = []
    npaths = 0
    vio_seen = set()
    S.ctx = ctx
    try:
        while True:
            if npaths >= max_paths:
                res["inconclusive"].append("max_paths %d reached" % max_paths)
                break
            if time.time() > deadline:
                res["inconclusive"].append("job time limit reached after %d paths" % npaths)
                break
            ENV.reset()
            ctx.begin_path(prefix)
            nv0 = len(ctx.violations)
            status = "ok"
            err = None
            try:
                func(**params)
            except PathAbort:
                status = "abort"
            except Unsupported as e:
                status = "unsupported"
                err = "Unsupported: %s" % e
            except Inconclusive as e:
                status = "inconclusive"
                err = "Inconclusive: %s" % e
            except z3.Z3Exception as e:
                status = "inconclusive"
                err = "Z3Exception: %s" % e
            except RecursionError as e:
                status = "inconclusive"
                err = "RecursionError"
            except Exception as e:      # noqa: BLE001
                status = "uncaught"
                err = "%s: %s" % (type(e).__name__, e)
                tb = traceback.format_exc(limit=-6)
                try:
                    inputs = ctx.current_inputs()
                    label = "uncaught:" + type(e).__name__
                    ctx.violations.append(core.Violation(label, label, inputs, err + "\n" + tb))
                except (PathAbort, Inconclusive, z3.Z3Exception):
                    res["inconclusive"].append("uncaught %s on an unsatisfiable/unknown path" % err)
            npaths += 1
            if status in ("unsupported", "inconclusive"):
                if len(res["inconclusive"]) < 20:
                    res["inconclusive"].append(err)
            # witness cross-check of a completed path
            if status in ("ok",) and len(ctx.violations) == nv0 and res["validated"] < max_validate \
                    and (npaths % validate_every == 0 or npaths <= 3):
                try:
                    inputs = ctx.current_inputs()
                    model = ctx.model
                    sym_obs = [(l, ctx.eval_value(v, model)) for l, v in ctx.observations]
                    ctx.stats["q_witness"] += 0
                    conc, exc = run_concrete(func, params, inputs)
                    S.ctx = ctx
                    nat_obs = conc.observations
                    problem = None
                    if exc is not None:
                        problem = "native run raised %s: %s" % (type(exc).__name__, exc)
                    elif conc.failed:
                        problem = "native run failed obligations %r" % (conc.failed[:3],)
                    elif [(l, _norm(v)) for l, v in sym_obs] != [(l, _norm(v)) for l, v in nat_obs]:
                        problem = "observations differ: sym=%r native=%r" % (
                            _jsonable(sym_obs)[:12], _jsonable([(l, v) for l, v in nat_obs])[:12])
                    if problem:
                        if len(res["mismatches"]) < 5:
                            res["mismatches"].append(dict(problem=problem, inputs=_jsonable(inputs)))
                    else:
                        res["validated"] += 1
                    if len(res["samples"]) < 3:
                        res["samples"].append(dict(inputs=_jsonable(inputs),
                                                   observations=_jsonable(sym_obs)[:16]))
                except (PathAbort, Inconclusive, z3.Z3Exception) as e:
                    res["inconclusive"].append("witness extraction failed: %s" % e)
                finally:
                    S.ctx = ctx
                    loader.activate("sym")
            ctx.end_path()
            for v in ctx.violations[nv0:]:
                if v.key in vio_seen and len(res["violations"]) > 40:
                    continue
                vio_seen.add(v.key)
                res["violations"].append(dict(label=v.label, key=v.key, inputs=_jsonable(v.inputs),
                                              raw_inputs=v.inputs, detail=v.detail))
            prefix = ctx.next_prefix()
            if prefix is None:
                break
            if len(res["inconclusive"]) >= 20:
                break
            if len(res["violations"]) >= limits.get("max_violations", 8):
                # enough counterexamples from this job: do not enumerate the rest of a (possibly exploding) space
                res["inconclusive"].append("stopped after %d violations" % len(res["violations"]))
                break
    finally:
        S.ctx = None
    res["paths"] = npaths
    res["stats"] = dict(ctx.stats)
    res["reach"] = sorted(ctx.reach)
    res["exhausted"] = prefix is None and not res["inconclusive"]
    return res


def replay_violation(func, params, vio):
    """Re-run natively with the counterexample; True if the same obligation fails again."""
    conc, exc = run_concrete(func, params, vio["raw_inputs"])
    label, key = vio["label"], vio["key"]
    if label.startswith("uncaught:"):
        return exc is not None and type(exc).__name__ == label.split(":", 1)[1], \
            "native exception: %r" % (exc,)
    hit = any(l == label or k == key for l, k in conc.failed)
    info = "native failed=%r exc=%r" % (conc.failed[:4], exc)
    return hit, info


class _Watchdog(Exception):
    pass


def _alarm(signum, frame):
    raise Inconclusive("job watchdog: a single path ran past the job time limit")


def run_job(job):
    """Executed in a worker process. job: dict(harness, func, params, limits, seed, validate_every)"""
    t0 = time.time()
    import signal
    armed = False
    try:
        signal.signal(signal.SIGALRM, _alarm)
        signal.setitimer(signal.ITIMER_REAL, job.get("limits", {}).get("job_timeout_s", 3600) + 60)
        armed = True
    except (ValueError, AttributeError):
        pass
    try:
        return _run_job(job, t0)
    finally:
        if armed:
            signal.setitimer(signal.ITIMER_REAL, 0)


def _run_job(job, t0):
    try:
        hmod = importlib.import_module("harness." + job["harness"])
        func = getattr(hmod, job["func"])
        params = job.get("params", {})
        res = explore(func, params, job.get("limits", {}), seed=job.get("seed", 0),
                      validate_every=job.get("validate_every", 1),
                      max_validate=job.get("max_validate", 400))
        # replay violations natively
        confirmed = []
        for v in res["violations"]:
            try:
                ok, info = replay_violation(func, params, v)
            except Exception as e:     # noqa: BLE001
                ok, info = False, "replay crashed: %s: %s" % (type(e).__name__, e)
            v["reproduced"] = ok
            v["replay_info"] = info
            del v["raw_inputs"]
        res["functions"] = sorted(_FUNCS)
        res["rewrites"] = dict(loader.REWRITES)
    except Exception as e:      # noqa: BLE001
        res = dict(paths=0, violations=[], inconclusive=["job crashed: %s: %s\n%s" % (
            type(e).__name__, e, traceback.format_exc(limit=-8))], mismatches=[], validated=0,
            samples=[], reach=[], stats={}, exhausted=False, functions=[], rewrites={})
    res["job"] = dict(harness=job["harness"], func=job["func"], params=_jsonable(job.get("params", {})))
    res["wall_s"] = time.time() - t0
    return res
