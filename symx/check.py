"""./check <Cxx> [--tier quick|thorough] [--replay file]

Exit codes: 0 held within bounds; 1 VIOLATION (reproduced natively, not a listed known
finding); 2 INCONCLUSIVE (bound / timeout / unsupported construct / vacuity marker missing);
3 ENGINE-MISMATCH (a counterexample or path witness did not reproduce on the native package)."""
import argparse
import concurrent.futures as cf
import fnmatch
import hashlib
import importlib
import json
import multiprocessing as mp
import os
import sys
import time

ROOT = os.path.dirname(os.path.dirname(os.path.abspath(__file__)))
if ROOT not in sys.path:
    sys.path.insert(0, ROOT)


def _load_known():
    p = os.path.join(ROOT, "known_findings.json")
    if not os.path.exists(p):
        return []
    with open(p) as f:
        return json.load(f).get("findings", [])


def _worker(job):
    from symx import runner
    marker = os.environ.get("SYMX_TEST_KILL_ONCE")      # self-test of the lost-worker handling
    if marker and not os.path.exists(marker):
        open(marker, "w").close()
        os._exit(9)
    return runner.run_job(job)


def _replay(pid, path):
    from symx import runner, loader
    with open(path) as f:
        rp = json.load(f)
    hmod = importlib.import_module("harness." + rp["harness"])
    func = getattr(hmod, rp["func"])
    inputs = rp["inputs"]
    conc, exc = runner.run_concrete(func, rp["params"], inputs)
    print("replay of %s on the native package (%s)" % (path, loader.REPO))
    print("  job: %s.%s %r" % (rp["harness"], rp["func"], rp["params"]))
    print("  inputs: %s" % json.dumps(inputs)[:2000])
    print("  observations: %r" % (conc.observations[:20],))
    print("  failed obligations: %r" % (conc.failed,))
    print("  exception: %r" % (exc,))
    label = rp["label"]
    hit = (label.startswith("uncaught:") and exc is not None) or any(
        l == label or k == rp.get("key") for l, k in conc.failed)
    if hit:
        print("VIOLATION property=%s replay=%s" % (pid, path))
        return 1
    print("not reproduced")
    return 0


def main(argv=None):
    ap = argparse.ArgumentParser()
    ap.add_argument("prop")
    ap.add_argument("--tier", default=os.environ.get("VERIF_TIER", "quick"),
                    choices=["quick", "thorough"])
    ap.add_argument("--replay")
    ap.add_argument("--workers", type=int, default=int(os.environ.get("VERIF_WORKERS", "16")))
    ap.add_argument("--only", help="run only jobs whose func name contains this")
    ap.add_argument("--no-evidence", action="store_true")
    args = ap.parse_args(argv)
    pid = args.prop.upper()
    seed = int(os.environ.get("VERIF_SEED", "0") or 0)
    hname = pid.lower()
    if args.replay:
        return _replay(pid, args.replay)
    t0 = time.time()
    from symx import selftest
    errs = selftest.run(seed)
    if errs:
        print("ENGINE-MISMATCH model self-test failed: %s" % errs[:5])
        return 3
    hmod = importlib.import_module("harness." + hname)
    meta = hmod.META
    jobs = []
    for j in hmod.jobs(args.tier):
        j = dict(j)
        j["harness"] = hname
        j.setdefault("limits", {})
        lim = dict(meta.get("limits", {}).get(args.tier, {}))
        lim.update(j["limits"])
        lim.setdefault("job_timeout_s", 600 if args.tier == "quick" else 3600)
        j["limits"] = lim
        j["seed"] = seed
        j.setdefault("validate_every", meta.get("validate_every", {}).get(args.tier, 1))
        j.setdefault("max_validate", meta.get("max_validate", {}).get(args.tier, 200))
        if args.only and args.only not in j["func"] + json.dumps(j.get("params", {})):
            continue
        jobs.append(j)
    if seed:
        import random
        random.Random(seed).shuffle(jobs)
    # heavy jobs first
    jobs.sort(key=lambda j: -j.get("weight", 1))
    results = []
    pending = list(jobs)
    # a worker process that dies (out of memory, killed from outside) breaks the whole pool: the jobs that were
    # lost are run again in a fresh, smaller pool (twice at most) before they count as inconclusive
    for attempt in range(3):
        workers = max(1, min(args.workers if attempt == 0 else max(2, args.workers // 4), len(pending)))
        ctxm = mp.get_context("spawn")
        lost = []
        with cf.ProcessPoolExecutor(max_workers=workers, mp_context=ctxm) as ex:
            futs = {}
            for j in pending:
                try:
                    futs[ex.submit(_worker, j)] = j
                except Exception as e:      # noqa: BLE001  (pool already broken while submitting)
                    lost.append((j, e))
            timed_out = 0
            for fu in cf.as_completed(futs):
                j = futs[fu]
                if fu.cancelled():
                    results.append(dict(paths=0, violations=[], inconclusive=["not run: several jobs had already hit "
                                                                              "their time limit"],
                                        mismatches=[], validated=0, samples=[], reach=[], stats={}, exhausted=False,
                                        functions=[], rewrites={},
                                        job=dict(harness=hname, func=j["func"], params=j.get("params")), wall_s=0))
                    continue
                try:
                    r = fu.result()
                    results.append(r)
                    if any("time limit" in m for m in r.get("inconclusive", [])):
                        timed_out += 1
                        if timed_out == 8:
                            # something makes the paths explode on this tree: the verdict is "inconclusive" anyway,
                            # do not spend the time limit of every remaining job on it
                            for f2 in futs:
                                f2.cancel()
                except cf.CancelledError:
                    pass
                except Exception as e:      # noqa: BLE001
                    lost.append((j, e))
        if not lost:
            break
        if attempt == 2:
            for j, e in lost:
                results.append(dict(paths=0, violations=[], inconclusive=["worker died: %r" % (e,)],
                                    mismatches=[], validated=0, samples=[], reach=[], stats={},
                                    exhausted=False, functions=[], rewrites={},
                                    job=dict(harness=hname, func=j["func"], params=j.get("params")),
                                    wall_s=0))
        else:
            print("note: %d job(s) lost with a dead worker (%r), running them again" % (len(lost), lost[0][1]))
            pending = [j for j, e in lost]
    wall = time.time() - t0

    known = [k for k in _load_known() if k.get("property") == pid]
    known_active = [k for k in known if k.get("status") == "known"]
    tot = dict(paths=0, decisions=0, q_feas=0, q_oblig=0, q_witness=0, solver_s=0.0,
               obligations=0, discharged=0, validated=0, aborted=0, cvc5_checked=0, cvc5_agree=0, cvc5_unknown=0,
               oneshot=0)
    funcs, reach, samples, rewrites = set(), set(), [], {}
    inconclusive, mismatches, new_vios, known_hits = [], [], [], {}
    unrepro = []
    for r in results:
        st = r.get("stats", {})
        for k in ("paths", "decisions", "q_feas", "q_oblig", "q_witness", "solver_s",
                  "obligations", "discharged", "aborted", "cvc5_checked", "cvc5_agree", "cvc5_unknown", "oneshot"):
            tot[k] += st.get(k, 0)
        tot["validated"] += r.get("validated", 0)
        funcs.update(r.get("functions", []))
        reach.update(r.get("reach", []))
        rewrites.update(r.get("rewrites", {}))
        for s in r.get("samples", [])[:1]:
            if len(samples) < 6:
                samples.append(dict(job=r["job"], **s))
        for m in r.get("inconclusive", []):
            inconclusive.append("%s %s: %s" % (r["job"]["func"], json.dumps(r["job"]["params"]), m))
        for m in r.get("mismatches", []):
            mismatches.append(dict(job=r["job"], **m))
        for v in r.get("violations", []):
            v = dict(v)
            v["job"] = r["job"]
            if not v.get("reproduced"):
                unrepro.append(v)
                continue
            hit = None
            for k in known_active:
                if fnmatch.fnmatchcase(v["key"], k["key"]):
                    hit = k
                    break
            if hit is not None:
                known_hits.setdefault(hit["key"], (hit, v))
            else:
                new_vios.append(v)

    missing_reach = [m for m in meta.get("required_reach", {}).get(args.tier, meta.get(
        "required_reach_all", [])) if m not in reach] if isinstance(meta.get("required_reach"), dict) \
        else [m for m in meta.get("required_reach", []) if m not in reach]
    if args.only:
        missing_reach = []

    # ---- replay files for new violations
    os.makedirs(os.path.join(ROOT, "replays"), exist_ok=True)
    lines = []
    seen_keys = set()
    for v in new_vios:
        if v["key"] in seen_keys:
            continue
        seen_keys.add(v["key"])
        body = dict(property=pid, harness=hname, func=v["job"]["func"], params=v["job"]["params"],
                    label=v["label"], key=v["key"], inputs=v["inputs"], detail=v.get("detail"),
                    replay_info=v.get("replay_info"))
        sha = hashlib.sha1(json.dumps(body, sort_keys=True).encode()).hexdigest()[:10]
        path = os.path.join(ROOT, "replays", "%s-%s.json" % (pid, sha))
        with open(path, "w") as f:
            json.dump(body, f, indent=1)
        lines.append("VIOLATION property=%s replay=%s  # %s" % (pid, path, v["key"]))

    for key, (k, v) in sorted(known_hits.items()):
        print("KNOWN-FINDING: property=%s %s" % (pid, k.get("what", key)))

    status = 0
    if lines:
        status = 1
    elif unrepro or mismatches:
        status = 3
    elif inconclusive or missing_reach or tot["paths"] == 0:
        status = 2

    if not args.no_evidence and not args.only:
        ev = dict(
            property_id=pid, tier=args.tier, seed=seed, level="model_checking",
            coverage=dict(
                states=tot["paths"], transitions=max(tot["decisions"], 0) + tot["paths"],
                traces_validated_against_impl=tot["validated"],
                samples=samples or [dict(note="no completed path sample")],
                exhaustive=bool(status == 0 and all(r.get("exhausted") for r in results)),
                obligations=tot["obligations"], discharged=tot["discharged"],
                jobs=len(results),
                queries=dict(feasibility=tot["q_feas"], obligation=tot["q_oblig"],
                             witness=tot["q_witness"]),
                solver_time_s=round(tot["solver_s"], 3),
                second_solver=dict(cvc5_rechecked=tot["cvc5_checked"], agree=tot["cvc5_agree"],
                                   unknown=tot["cvc5_unknown"]),
                oneshot_queries=tot["oneshot"],
                functions_encoded=sorted(funcs),
                reach_markers=sorted(reach),
                bounds=meta.get("bounds", {}).get(args.tier, meta.get("bounds")),
                outside_bounds=meta.get("outside_bounds", []),
                stubs=meta.get("stubs", []),
                ast_rewrites={k: v for k, v in rewrites.items() if v},
                known_findings_seen=sorted(known_hits),
                inconclusive=inconclusive[:20],
                engine_mismatches=len(unrepro) + len(mismatches),
                explanation=meta.get("explanation", ""),
            ),
            assumptions=meta.get("assumptions", []),
            wall_s=round(wall, 2),
            violations=len(lines),
        )
        os.makedirs(os.path.join(ROOT, "evidence"), exist_ok=True)
        with open(os.path.join(ROOT, "evidence", "%s.json" % pid), "w") as f:
            json.dump(ev, f, indent=1)

    print("%s tier=%s jobs=%d paths=%d decisions=%d obligations=%d discharged=%d validated=%d "
          "solver=%.1fs wall=%.1fs" % (pid, args.tier, len(results), tot["paths"], tot["decisions"],
                                       tot["obligations"], tot["discharged"], tot["validated"],
                                       tot["solver_s"], wall))
    if os.environ.get("SYMX_TIMING"):
        for r in sorted(results, key=lambda r: -r.get("wall_s", 0))[:12]:
            print("  slow job %.1fs paths=%d %s %s" % (r.get("wall_s", 0), r.get("paths", 0), r["job"]["func"],
                                                      json.dumps(r["job"]["params"])))
    for l in lines:
        print(l)
    for v in unrepro[:10]:
        print("ENGINE-MISMATCH counterexample not reproduced: %s %s inputs=%s info=%s" % (
            v["job"]["func"], v["key"], json.dumps(v["inputs"])[:400], v.get("replay_info")))
    for m in mismatches[:10]:
        print("ENGINE-MISMATCH witness: %s %s" % (m["job"], m["problem"][:600]))
    for m in inconclusive[:15]:
        print("INCONCLUSIVE %s" % m[:600])
    for m in missing_reach:
        print("INCONCLUSIVE vacuity: reach marker %r never hit" % m)
    if status == 0:
        print("OK property=%s held within the stated bounds" % pid)
    return status


if __name__ == "__main__":
    sys.exit(main())
