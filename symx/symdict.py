"""Solver-aware containers substituted for dict/set displays in loaded canopen modules.

SymDict keeps insertion order like dict.  Concrete hashable keys live in a real dict (fast
path); a lookup with a symbolic key compares against every stored key (each comparison is a
branch decided by the solver), which makes the lookup a complete case split."""
from .core import SymInt, SymBool, is_sym, Unsupported

_MISSING = object()


def _symkey(k):
    if is_sym(k):
        return True
    if type(k).__name__ in ("SymFloat", "SymStr", "SymBytes", "SymByteArray"):
        return True
    if isinstance(k, tuple):
        return any(_symkey(e) for e in k)
    return False


class SymDict:
    __slots__ = ("_keys", "_vals", "_fast", "_nsym")

    def __init__(self, items=(), **kw):
        self._keys = []
        self._vals = []
        self._fast = {}
        self._nsym = 0
        if isinstance(items, SymDict):
            items = list(items.items())
        elif isinstance(items, dict):
            items = list(items.items())
        for k, v in items:
            self[k] = v
        for k, v in kw.items():
            self[k] = v

    # ---- core lookup ---------------------------------------------------------------
    def _find(self, key):
        if not _symkey(key):
            if self._nsym == 0:
                try:
                    return self._fast.get(key, -1)
                except TypeError:
                    pass
            else:
                try:
                    i = self._fast.get(key, -1)
                    if i >= 0:
                        return i
                except TypeError:
                    pass
                # compare with symbolic stored keys only
                for i, k in enumerate(self._keys):
                    if _symkey(k) and k == key:
                        return i
                return -1
        for i, k in enumerate(self._keys):
            if k == key:
                return i
        return -1

    def _reindex(self):
        self._fast = {}
        self._nsym = 0
        for i, k in enumerate(self._keys):
            if _symkey(k):
                self._nsym += 1
            else:
                try:
                    self._fast[k] = i
                except TypeError:
                    self._nsym += 1

    def __getitem__(self, key):
        i = self._find(key)
        if i < 0:
            raise KeyError(key)
        return self._vals[i]

    def __setitem__(self, key, val):
        i = self._find(key)
        if i >= 0:
            self._vals[i] = val
            return
        self._keys.append(key)
        self._vals.append(val)
        if _symkey(key):
            self._nsym += 1
        else:
            try:
                self._fast[key] = len(self._keys) - 1
            except TypeError:
                self._nsym += 1

    def __delitem__(self, key):
        i = self._find(key)
        if i < 0:
            raise KeyError(key)
        del self._keys[i]
        del self._vals[i]
        self._reindex()

    def __contains__(self, key):
        return self._find(key) >= 0

    def __len__(self):
        return len(self._keys)

    def __iter__(self):
        return iter(list(self._keys))

    def __bool__(self):
        return bool(self._keys)

    def __eq__(self, o):
        if isinstance(o, (SymDict, dict)):
            if len(o) != len(self):
                return False
            for k, v in self.items():
                if k not in o:
                    return False
                if not (o[k] == v):
                    return False
            return True
        return NotImplemented

    def __ne__(self, o):
        r = self.__eq__(o)
        return r if r is NotImplemented else not r

    __hash__ = None

    def __repr__(self):
        return "SymDict(%r)" % (list(zip(self._keys, self._vals)),)

    def get(self, key, default=None):
        i = self._find(key)
        return default if i < 0 else self._vals[i]

    def setdefault(self, key, default=None):
        i = self._find(key)
        if i >= 0:
            return self._vals[i]
        self[key] = default
        return default

    def pop(self, key, default=_MISSING):
        i = self._find(key)
        if i < 0:
            if default is _MISSING:
                raise KeyError(key)
            return default
        v = self._vals[i]
        del self._keys[i]
        del self._vals[i]
        self._reindex()
        return v

    def keys(self):
        return list(self._keys)

    def values(self):
        return list(self._vals)

    def items(self):
        return list(zip(self._keys, self._vals))

    def update(self, other=(), **kw):
        if isinstance(other, (SymDict, dict)):
            other = list(other.items())
        for k, v in other:
            self[k] = v
        for k, v in kw.items():
            self[k] = v

    def clear(self):
        self._keys = []
        self._vals = []
        self._fast = {}
        self._nsym = 0

    def copy(self):
        return SymDict(self.items())

    __copy__ = copy

    @classmethod
    def fromkeys(cls, keys, value=None):
        return cls([(k, value) for k in keys])

    def __or__(self, o):
        d = self.copy()
        d.update(o)
        return d

    def __class_getitem__(cls, item):
        return cls


class _DictMeta(type):
    def __instancecheck__(cls, inst):
        return isinstance(inst, (dict, SymDict))


class dict_(metaclass=_DictMeta):
    """Stand-in for the builtin name `dict` in loaded modules."""

    def __new__(cls, *a, **kw):
        return SymDict(*a, **kw)

    def __class_getitem__(cls, item):
        return cls

    fromkeys = SymDict.fromkeys


class SymSet:
    __slots__ = ("_d",)

    def __init__(self, items=()):
        self._d = SymDict()
        for x in items:
            self._d[x] = True

    def add(self, x):
        self._d[x] = True

    def discard(self, x):
        self._d.pop(x, None)

    def remove(self, x):
        del self._d[x]

    def __contains__(self, x):
        return x in self._d

    def __len__(self):
        return len(self._d)

    def __iter__(self):
        return iter(self._d.keys())

    def __bool__(self):
        return bool(self._d)

    def union(self, *others):
        s = SymSet(self)
        for o in others:
            for x in o:
                s.add(x)
        return s

    __or__ = union
    __ror__ = union

    def update(self, *others):
        for o in others:
            for x in list(o):
                self.add(x)

    def __ior__(self, o):           # in place, like set
        self.update(o)
        return self

    def intersection(self, *others):
        return SymSet([x for x in self if all(x in o for o in others)])

    __and__ = intersection

    def __iand__(self, o):
        for x in [x for x in self if x not in o]:
            self.discard(x)
        return self

    def difference(self, *others):
        return SymSet([x for x in self if not any(x in o for o in others)])

    __sub__ = difference

    def __isub__(self, o):
        for x in list(o):
            self.discard(x)
        return self

    def difference_update(self, *others):
        for o in others:
            self.__isub__(o)

    def issubset(self, o):
        return all(x in o for x in self)

    def issuperset(self, o):
        return all(x in self for x in o)

    __le__ = issubset
    __ge__ = issuperset

    def copy(self):
        return SymSet(self)

    def clear(self):
        self._d = SymDict()

    def pop(self):
        for x in self:
            self.discard(x)
            return x
        raise KeyError("pop from an empty set")

    def __eq__(self, o):
        try:
            if len(o) != len(self):
                return False
            return all(x in self for x in o) and all(x in o for x in self)
        except TypeError:
            return NotImplemented

    __hash__ = None

    def __repr__(self):
        return "SymSet(%r)" % (self._d.keys(),)

    def __class_getitem__(cls, item):
        return cls


class _SetMeta(type):
    def __instancecheck__(cls, inst):
        return isinstance(inst, (set, frozenset, SymSet))


class set_(metaclass=_SetMeta):
    def __new__(cls, items=()):
        return SymSet(items)

    def __class_getitem__(cls, item):
        return cls
