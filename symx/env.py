"""Per-path environment state shared by the stdlib models: fake clock, delivery hook,
I/O buffering policy, live periodic tasks of the can model."""


class Env:
    def __init__(self):
        self.reset()

    sched = None

    def reset(self):
        if self.sched is not None:
            try:
                self.sched.shutdown()
            finally:
                self.sched = None
        self.now = 1000.0
        self.tick = 0.001          # every clock read advances by this much
        self.delivery_hook = None  # callable(kind, obj) run when a waiter would block
        self.io_policy = "c"       # 'c' | 'pyio' | 'nondet'
        self.sleeps = []
        self.in_hook = False
        self.wait_timeout = None

    def read_clock(self):
        t = self.now
        self.now += self.tick
        return t

    def advance(self, dt):
        if dt is not None and dt > 0:
            self.now += dt

    def run_hook(self, kind, obj, timeout=None):
        """timeout: how long the waiter is prepared to wait (None: for ever); a hook that models slow delivery
        reads it from `wait_timeout` and delivers only what arrives in time"""
        h = self.delivery_hook
        if h is None or self.in_hook:
            return
        self.in_hook = True
        self.wait_timeout = timeout
        try:
            h(kind, obj)
        finally:
            self.in_hook = False
            self.wait_timeout = None


ENV = Env()
