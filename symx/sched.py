"""Deterministic two-or-more-thread scheduler for the lock / condition-variable models.

Spawned functions run in real OS threads, but exactly one thread runs at a time; control changes hands
only at the synchronisation points of the models (lock acquire, Condition.wait, thread end), and *which*
runnable thread continues there is a `choice()` - so the explorer enumerates every schedule at lock
granularity.  A timed wait only times out when no other thread can make progress."""
import threading

from . import api
from .core import PathAbort
from .env import ENV


class ThreadKill(BaseException):
    pass


class _T:
    def __init__(self, name):
        self.name = name
        self.sem = threading.Semaphore(0)
        self.state = "runnable"        # runnable | lock | waiting | done
        self.blocked_on = None
        self.notified = False
        self.timed = False
        self.exc = None
        self.os = None
        self.wait_results = []         # True: woken by notify, False: timed out


class Scheduler:
    def __init__(self):
        self.main = _T("main")
        self.threads = [self.main]
        self.current = self.main
        self.dead = False
        self.switches = 0
        ENV.sched = self

    # ---- thread management ----------------------------------------------------------------------
    def spawn(self, fn, name=None):
        t = _T(name or "t%d" % len(self.threads))
        self.threads.append(t)

        def body():
            t.sem.acquire()
            try:
                if self.dead:
                    return
                fn()
            except ThreadKill:
                return
            except BaseException as e:          # noqa: BLE001 - handed to the main thread
                t.exc = e
            finally:
                t.state = "done"
                if not self.dead:
                    self._leave(t)
        t.os = threading.Thread(target=body, daemon=True)
        t.os.start()
        return t

    def _runnable(self):
        return [t for t in self.threads if t.state == "runnable"]

    def _pick(self, exclude=None, label="sched"):
        cands = [t for t in self._runnable() if t is not exclude]
        if not cands:
            return None
        if len(cands) == 1:
            return cands[0]
        return cands[api.choice(len(cands), label)]

    def _switch_to(self, nxt, cur):
        """hand control from cur to nxt and block cur until it is scheduled again"""
        if nxt is cur:
            return
        self.switches += 1
        self.current = nxt
        nxt.sem.release()
        cur.sem.acquire()
        if self.dead and cur is not self.main:
            raise ThreadKill()
        self._check_child_exc(cur)

    def _check_child_exc(self, cur):
        if cur is self.main:
            for t in self.threads:
                if t.exc is not None:
                    e, t.exc = t.exc, None
                    raise e

    def _leave(self, t):
        """thread t finished (or can no longer run): pass control on"""
        nxt = self._pick(exclude=t, label="sched_exit")
        if nxt is None:
            nxt = self._fire_timeout(exclude=t)
        if nxt is None:
            nxt = self.main          # deadlock or everything done: the main thread sorts it out
        self.current = nxt
        nxt.sem.release()

    def _fire_timeout(self, exclude=None):
        for t in self.threads:
            if t.state == "waiting" and t.timed and t is not exclude:
                t.state = "runnable"
                t.notified = False
                return t
        return None

    def yield_point(self, label="sched"):
        cur = self.current
        cands = self._runnable()
        if len(cands) <= 1:
            return
        nxt = cands[api.choice(len(cands), label)]
        self._switch_to(nxt, cur)

    def _block(self, cur):
        """cur cannot continue: run someone else (or let a timed waiter time out)"""
        nxt = self._pick(exclude=cur, label="sched_block")
        if nxt is None:
            nxt = self._fire_timeout(exclude=None)
        if nxt is None:
            raise RuntimeError("scheduler: deadlock (no runnable thread)")
        if nxt is cur:
            return
        self._switch_to(nxt, cur)

    def join(self):
        """main thread: run until every spawned thread is done"""
        cur = self.current
        guard = 0
        while any(t.state != "done" for t in self.threads if t is not self.main):
            guard += 1
            if guard > 1000:
                raise RuntimeError("scheduler: join does not terminate")
            others = [t for t in self._runnable() if t is not self.main]
            if others:
                nxt = others[0] if len(others) == 1 else others[api.choice(len(others), "sched_join")]
                self._switch_to(nxt, cur)
            else:
                t = self._fire_timeout(exclude=self.main)
                if t is None:
                    raise RuntimeError("scheduler: threads blocked forever")
                self._switch_to(t, cur)
        self._check_child_exc(cur)

    def shutdown(self):
        self.dead = True
        for t in self.threads:
            if t is not self.main and t.state != "done":
                t.sem.release()
        for t in self.threads:
            if t.os is not None:
                t.os.join(timeout=2)
        if ENV.sched is self:
            ENV.sched = None


class SLock:
    def __init__(self, sched):
        self.s = sched
        self.owner = None
        self.depth = 0

    def acquire(self):
        s = self.s
        s.yield_point("lock")
        cur = s.current
        while self.owner is not None and self.owner is not cur:
            cur.state = "lock"
            cur.blocked_on = self
            s._block(cur)
        cur.state = "runnable"
        self.owner = cur
        self.depth += 1

    def release(self):
        self.depth -= 1
        if self.depth == 0:
            self.owner = None
            for t in self.s.threads:
                if t.state == "lock" and t.blocked_on is self:
                    t.state = "runnable"


class SCondition:
    """condition variable under the scheduler"""

    def __init__(self, sched):
        self.s = sched
        self.lock = SLock(sched)
        self.waiters = []

    def __enter__(self):
        self.lock.acquire()
        return self

    def __exit__(self, *a):
        self.lock.release()
        return False

    def wait(self, timeout=None):
        s = self.s
        cur = s.current
        depth = self.lock.depth
        self.lock.depth = 1
        self.lock.release()
        cur.state = "waiting"
        cur.timed = timeout is not None
        cur.notified = False
        self.waiters.append(cur)
        s._block(cur)
        if cur in self.waiters:
            self.waiters.remove(cur)
        woken = cur.notified
        cur.wait_results.append(woken)
        if not woken:
            ENV.advance(timeout)
        cur.state = "runnable"
        # re-acquire
        while self.lock.owner is not None and self.lock.owner is not cur:
            cur.state = "lock"
            cur.blocked_on = self.lock
            s._block(cur)
        cur.state = "runnable"
        self.lock.owner = cur
        self.lock.depth = depth
        return woken

    def notify_all(self):
        for t in list(self.waiters):
            t.notified = True
            t.state = "runnable"
        self.waiters = []

    def notify(self, n=1):
        for t in list(self.waiters)[:n]:
            t.notified = True
            t.state = "runnable"
            self.waiters.remove(t)
