"""Deterministic two-or-more-thread scheduler for the lock / condition-variable models.

Spawned functions run in real OS threads, but exactly one thread runs at a time; control changes hands
only at the synchronisation points of the models (lock acquire, Condition.wait, thread end), and *which*
runnable thread continues there is a `choice()` - so the explorer enumerates every schedule at lock
granularity.  A timed wait only times out when no other thread can make progress.

With `preempt=k` the scheduler additionally explores *preemptions between synchronisation points*: every
source line of a canopen function executed by any thread is a possible preemption point (sys.settrace 'line'
events of code objects under $VERIF_REPO/canopen); at most k preemptions per schedule are taken (context
bound, as in CHESS), every placement of them is explored.  Preemption inside a line (between two bytecodes of
one statement) stays outside.  Preemption points are named by function and line so that a symbolic path and
its native replay agree on them even though the loader rewrites dict displays."""
import os
import sys
import threading

from . import api
from .core import PathAbort
from .env import ENV


_TRACED = {}          # code object -> is it canopen code (cache for the trace function)


class ThreadKill(BaseException):
    pass


class _T:
    def __init__(self, name):
        self.name = name
        self.sem = threading.Semaphore(0)
        self.state = "runnable"        # runnable | lock | waiting | done
        self.blocked_on = None
        self.notified = False
        self.timed = False
        self.exc = None
        self.os = None
        self.wait_results = []         # True: woken by notify, False: timed out


class Scheduler:
    def __init__(self, preempt=0, only=None, delay=False, lines=True):
        self.main = _T("main")
        self.threads = [self.main]
        self.current = self.main
        self.dead = False
        self.switches = 0
        self.preempt_left = preempt
        self.main.thread = threading.current_thread()
        self.preempt_only = only            # optional set of function names that may be preempted
        self.preempt_points = 0
        self.delay = delay                  # delay-bounded mode: a default schedule plus at most `preempt` deviations
        self._in_sched = False
        self._root = os.path.join(os.path.realpath(os.environ.get("VERIF_REPO", "/repo")), "canopen") + os.sep
        ENV.sched = self
        self.lines = lines
        if preempt and lines:
            self._old_trace = sys.gettrace()
            sys.settrace(self._trace)

    # ---- preemption between synchronisation points ---------------------------------------------
    def _trace(self, frame, event, arg):
        if self.dead or self.preempt_left <= 0:
            return None
        co = frame.f_code
        ok = _TRACED.get(co)
        if ok is None:
            fn = co.co_filename
            ok = _TRACED[co] = bool(fn.startswith(self._root) or os.path.realpath(fn).startswith(self._root))
        if not ok:
            return None
        if self.preempt_only is not None and co.co_name not in self.preempt_only:
            return None
        return self._line

    def _line(self, frame, event, arg):
        if event != "line" or self.dead or self.preempt_left <= 0 or self._in_sched:
            return self._line
        cur = self.current
        if threading.current_thread() is not getattr(cur, "thread", None):
            return self._line
        others = [t for t in self._runnable() if t is not cur]
        if not others or cur.state != "runnable":
            return self._line
        self.preempt_points += 1
        co = frame.f_code
        label = "pre:%s:%s:%d" % (cur.name, co.co_name, frame.f_lineno)
        self._in_sched = True
        try:
            if self.delay:
                nxt = self._deviate([cur] + self._rr(cur, others), label)
                if nxt is cur:
                    nxt = None
            elif api.choice(2, label):
                self.preempt_left -= 1
                nxt = others[0] if len(others) == 1 else others[api.choice(len(others), "pre_to")]
            else:
                nxt = None
        finally:
            self._in_sched = False
        if nxt is not None:
            self._switch_to(nxt, cur)
        return self._line

    def _rr(self, cur, cands):
        """candidates in round-robin order starting after cur"""
        i = self.threads.index(cur)
        order = self.threads[i + 1:] + self.threads[:i + 1]
        return [t for t in order if t in cands]

    def _deviate(self, ordered, label):
        """delay-bounded choice: the first candidate is the default; every skip costs one unit of the budget"""
        idx = 0
        while self.preempt_left > 0 and idx < len(ordered) - 1 and api.choice(2, label):
            idx += 1
            self.preempt_left -= 1
        return ordered[idx]

    # ---- thread management ----------------------------------------------------------------------
    def spawn(self, fn, name=None):
        t = _T(name or "t%d" % len(self.threads))
        self.threads.append(t)

        def body():
            t.sem.acquire()
            try:
                if self.dead:
                    return
                if self.preempt_left > 0 and self.lines:
                    sys.settrace(self._trace)
                fn()
            except ThreadKill:
                return
            except BaseException as e:          # noqa: BLE001 - handed to the main thread
                t.exc = e
            finally:
                t.state = "done"
                if not self.dead:
                    self._leave(t)
        t.os = t.thread = threading.Thread(target=body, daemon=True)
        t.os.start()
        return t

    def _runnable(self):
        for t in self.threads:
            if t.state == "joining" and t.join_pred():
                t.state = "runnable"
        return [t for t in self.threads if t.state == "runnable"]

    def wait_until(self, pred):
        """the calling thread sleeps until pred() holds (evaluated when other threads block or end)"""
        cur = self.current
        while not pred():
            cur.state = "joining"
            cur.join_pred = pred
            self._block(cur)
        cur.state = "runnable"

    def done(self, prefix):
        return all(t.state == "done" for t in self.threads if t.name.startswith(prefix))

    def _pick(self, exclude=None, label="sched"):
        cands = [t for t in self._runnable() if t is not exclude]
        if not cands:
            return None
        if len(cands) == 1:
            return cands[0]
        if self.delay:
            return self._deviate(self._rr(self.current, cands), "dly:" + label)
        return cands[api.choice(len(cands), label)]

    def _switch_to(self, nxt, cur):
        """hand control from cur to nxt and block cur until it is scheduled again"""
        if nxt is cur:
            return
        self.switches += 1
        self.current = nxt
        nxt.sem.release()
        cur.sem.acquire()
        if self.dead and cur is not self.main:
            raise ThreadKill()
        self._check_child_exc(cur)

    def _check_child_exc(self, cur):
        if cur is self.main:
            for t in self.threads:
                if t.exc is not None:
                    e, t.exc = t.exc, None
                    raise e

    def _leave(self, t):
        """thread t finished (or can no longer run): pass control on"""
        nxt = self._pick(exclude=t, label="sched_exit")
        if nxt is None:
            nxt = self._fire_timeout(exclude=t)
        if nxt is None:
            nxt = self.main          # deadlock or everything done: the main thread sorts it out
        self.current = nxt
        nxt.sem.release()

    def _fire_timeout(self, exclude=None):
        for t in self.threads:
            if t.state == "waiting" and t.timed and t is not exclude:
                t.state = "runnable"
                t.notified = False
                return t
        return None

    def yield_point(self, label="sched"):
        cur = self.current
        cands = self._runnable()
        if len(cands) <= 1:
            return
        if self.delay:
            if cur not in cands:
                return
            nxt = self._deviate([cur] + self._rr(cur, [t for t in cands if t is not cur]), "dly:%s:%s" % (cur.name, label))
        else:
            nxt = cands[api.choice(len(cands), label)]
        self._switch_to(nxt, cur)

    def _block(self, cur):
        """cur cannot continue: run someone else (or let a timed waiter time out)"""
        nxt = self._pick(exclude=cur, label="sched_block")
        if nxt is None:
            nxt = self._fire_timeout(exclude=None)
        if nxt is None:
            raise RuntimeError("scheduler: deadlock (no runnable thread)")
        if nxt is cur:
            return
        self._switch_to(nxt, cur)

    def join(self):
        """main thread: run until every spawned thread is done"""
        cur = self.current
        guard = 0
        while any(t.state != "done" for t in self.threads if t is not self.main):
            guard += 1
            if guard > 1000:
                raise RuntimeError("scheduler: join does not terminate")
            others = [t for t in self._runnable() if t is not self.main]
            if others:
                if len(others) == 1:
                    nxt = others[0]
                elif self.delay:
                    nxt = self._deviate(self._rr(cur, others), "dly:join")
                else:
                    nxt = others[api.choice(len(others), "sched_join")]
                self._switch_to(nxt, cur)
            else:
                t = self._fire_timeout(exclude=self.main)
                if t is None:
                    raise RuntimeError("scheduler: threads blocked forever")
                self._switch_to(t, cur)
        self._check_child_exc(cur)

    def shutdown(self):
        self.dead = True
        if hasattr(self, "_old_trace"):
            sys.settrace(self._old_trace)
        for t in self.threads:
            if t is not self.main and t.state != "done":
                t.sem.release()
        for t in self.threads:
            if t.os is not None:
                t.os.join(timeout=2)
        if ENV.sched is self:
            ENV.sched = None


class SLock:
    def __init__(self, sched):
        self.s = sched
        self.owner = None
        self.depth = 0

    def acquire(self):
        s = self.s
        s.yield_point("lock")
        cur = s.current
        while self.owner is not None and self.owner is not cur:
            cur.state = "lock"
            cur.blocked_on = self
            s._block(cur)
        cur.state = "runnable"
        self.owner = cur
        self.depth += 1

    def release(self):
        self.depth -= 1
        if self.depth == 0:
            self.owner = None
            for t in self.s.threads:
                if t.state == "lock" and t.blocked_on is self:
                    t.state = "runnable"


class SCondition:
    """condition variable under the scheduler"""

    def __init__(self, sched):
        self.s = sched
        self.lock = SLock(sched)
        self.waiters = []

    def __enter__(self):
        self.lock.acquire()
        return self

    def __exit__(self, *a):
        self.lock.release()
        return False

    def wait(self, timeout=None):
        s = self.s
        cur = s.current
        depth = self.lock.depth
        self.lock.depth = 1
        self.lock.release()
        cur.state = "waiting"
        cur.timed = timeout is not None
        cur.notified = False
        self.waiters.append(cur)
        s._block(cur)
        if cur in self.waiters:
            self.waiters.remove(cur)
        woken = cur.notified
        cur.wait_results.append(woken)
        if not woken:
            ENV.advance(timeout)
        cur.state = "runnable"
        # re-acquire
        while self.lock.owner is not None and self.lock.owner is not cur:
            cur.state = "lock"
            cur.blocked_on = self.lock
            s._block(cur)
        cur.state = "runnable"
        self.lock.owner = cur
        self.lock.depth = depth
        return woken

    def notify_all(self):
        for t in list(self.waiters):
            t.notified = True
            t.state = "runnable"
        self.waiters = []

    def notify(self, n=1):
        for t in list(self.waiters)[:n]:
            t.notified = True
            t.state = "runnable"
            self.waiters.remove(t)
