"""symx core: symbolic proxies (SymInt/SymBool), path exploration context, obligations.

Python ints are unbounded; proxies carry a z3 128-bit signed bit-vector term plus a
Python-side interval [lo, hi].  Every arithmetic result gets an interval by interval
arithmetic; if it could leave +-2**126 the engine raises Unsupported (=> inconclusive)
instead of wrapping silently.
"""
import time
import z3

import os
W = 128
LIM = 1 << 126
TRACE = bool(os.environ.get("SYMX_TRACE"))


class Unsupported(Exception):
    """A construct the proxies cannot model soundly: the job becomes inconclusive."""


class Inconclusive(Exception):
    """Solver said unknown / a bound was hit."""


class PathAbort(BaseException):
    """Ends the current path (infeasible assumption or deliberate stop)."""


class _State:
    ctx = None          # current symbolic Context or None (concrete mode)


S = _State()


def ctx():
    c = S.ctx
    if c is None:
        raise RuntimeError("no symbolic context active")
    return c


def BV(v):
    return z3.BitVecVal(v, W)


def _bits_bound(*vals):
    m = 0
    for v in vals:
        m = max(m, v.bit_length() if v >= 0 else (-v - 1).bit_length())
    return m


def is_sym(x):
    return isinstance(x, (SymInt, SymBool))


class SymBool:
    __slots__ = ("t",)

    def __init__(self, t):
        self.t = t

    def __bool__(self):
        return ctx().branch(self.t)

    # non-forking logical combinators
    def __and__(self, o):
        if isinstance(o, SymBool):
            return SymBool(z3.And(self.t, o.t))
        if isinstance(o, bool):
            return self if o else False
        return self._as_int() & o

    __rand__ = __and__

    def __or__(self, o):
        if isinstance(o, SymBool):
            return SymBool(z3.Or(self.t, o.t))
        if isinstance(o, bool):
            return True if o else self
        return self._as_int() | o

    __ror__ = __or__

    def __xor__(self, o):
        if isinstance(o, SymBool):
            return SymBool(z3.Xor(self.t, o.t))
        if isinstance(o, bool):
            return SymBool(z3.Not(self.t)) if o else self
        return self._as_int() ^ o

    __rxor__ = __xor__

    def __invert__(self):
        # logical not (used by harness code only; canopen never applies ~ to a bool)
        return SymBool(z3.Not(self.t))

    def __eq__(self, o):
        if isinstance(o, SymBool):
            return SymBool(self.t == o.t)
        if isinstance(o, bool):
            return self if o else SymBool(z3.Not(self.t))
        if isinstance(o, (int, SymInt)):
            return self._as_int() == o
        return False

    def __ne__(self, o):
        r = self.__eq__(o)
        if isinstance(r, SymBool):
            return SymBool(z3.Not(r.t))
        return not r

    def __hash__(self):
        return hash(bool(self))

    def _as_int(self):
        return SymInt(z3.If(self.t, BV(1), BV(0)), 0, 1)

    def __index__(self):
        return 1 if bool(self) else 0

    __int__ = __index__

    def __add__(self, o): return self._as_int() + o
    def __radd__(self, o): return o + self._as_int()
    def __sub__(self, o): return self._as_int() - o
    def __rsub__(self, o): return o - self._as_int()
    def __mul__(self, o): return self._as_int() * o
    def __rmul__(self, o): return o * self._as_int()
    def __lshift__(self, o): return self._as_int() << o
    def __rlshift__(self, o): return o << self._as_int()
    def __lt__(self, o): return self._as_int() < o
    def __le__(self, o): return self._as_int() <= o
    def __gt__(self, o): return self._as_int() > o
    def __ge__(self, o): return self._as_int() >= o

    def __repr__(self):
        return "<SymBool>"

    __str__ = __repr__

    def __format__(self, spec):
        return format_token(self._as_int(), spec)


def _lift(x):
    if isinstance(x, SymInt):
        return x
    if isinstance(x, bool):
        x = int(x)
    if isinstance(x, int):
        if not -LIM < x < LIM:
            raise Unsupported("integer constant beyond 2**126")
        return SymInt(BV(x), x, x)
    if isinstance(x, SymBool):
        return x._as_int()
    return None


def mk(t, lo, hi):
    if lo == hi:
        return lo
    if lo <= -LIM or hi >= LIM:
        raise Unsupported("integer interval beyond 2**126")
    return SymInt(t, lo, hi)


def _floordiv_term(a, c):
    """floor(a / c), c concrete non-zero int, a BV term."""
    if c > 0 and c & (c - 1) == 0:
        return a >> (c.bit_length() - 1)
    cq = BV(c)
    q = a / cq          # signed, truncating
    r = z3.SRem(a, cq)
    adj = z3.And(r != 0, (r < 0) != (c < 0))
    return z3.If(adj, q - 1, q)


def _mod_term(a, c):
    if c > 0 and c & (c - 1) == 0:
        return a & BV(c - 1)
    cq = BV(c)
    r = z3.SRem(a, cq)
    adj = z3.And(r != 0, (r < 0) != (c < 0))
    return z3.If(adj, r + cq, r)


class SymInt:
    __slots__ = ("t", "lo", "hi", "fp")

    def __init__(self, t, lo, hi, fp=None):
        self.t = t
        self.lo = lo
        self.hi = hi
        self.fp = fp      # optional z3 FP term with the same (integral) value

    # ---- conversions -------------------------------------------------------------
    def __bool__(self):
        if self.lo > 0 or self.hi < 0:
            return True
        return ctx().branch(self.t != 0)

    def __index__(self):
        return ctx().concretize(self)

    __int__ = __index__

    def __hash__(self):
        return hash(ctx().concretize(self))

    def __float__(self):
        raise Unsupported("float() of a symbolic int")

    def __repr__(self):
        return format_token(self, "r")

    def __str__(self):
        return format_token(self, "")

    def __format__(self, spec):
        return format_token(self, spec)

    def to_bytes(self, length=1, byteorder="big", *, signed=False):
        from .symbytes import mkbytes
        length = length.__index__()
        bits = 8 * length
        lo, hi = (-(1 << (bits - 1)) if bits else 0, (1 << (bits - 1)) - 1 if bits else 0) if signed \
            else (0, (1 << bits) - 1)
        if not signed and bool(self < 0):
            raise OverflowError("can't convert negative int to unsigned")
        if not bool((self >= lo) & (self <= hi)):
            raise OverflowError("int too big to convert")
        items = []
        for i in range(length):
            if self.lo >= 0 and self.hi < (1 << (8 * i)):
                items.append(0)
            else:
                items.append(SymInt(z3.ZeroExt(W - 8, z3.Extract(8 * i + 7, 8 * i, self.t)), 0, 255))
        if byteorder == "big":
            items.reverse()
        elif byteorder != "little":
            raise ValueError("byteorder must be either 'little' or 'big'")
        return mkbytes(items)

    def bit_length(self):
        raise Unsupported("bit_length of symbolic int")

    # ---- arithmetic --------------------------------------------------------------
    def _fl(self, o, op, swap=False):
        from . import symfloat
        if isinstance(o, (float, symfloat.SymFloat)):
            a, b = symfloat.lift(self), symfloat.lift(o)
            if swap:
                a, b = b, a
            return getattr(a, op)(b)
        return NotImplemented

    def __add__(self, o):
        b = _lift(o)
        if b is None:
            return self._fl(o, "__add__")
        return mk(self.t + b.t, self.lo + b.lo, self.hi + b.hi)

    def __radd__(self, o):
        b = _lift(o)
        if b is None:
            return self._fl(o, "__add__", True)
        return mk(self.t + b.t, self.lo + b.lo, self.hi + b.hi)

    def __sub__(self, o):
        b = _lift(o)
        if b is None:
            return self._fl(o, "__sub__")
        return mk(self.t - b.t, self.lo - b.hi, self.hi - b.lo)

    def __rsub__(self, o):
        b = _lift(o)
        if b is None:
            return self._fl(o, "__sub__", True)
        return mk(b.t - self.t, b.lo - self.hi, b.hi - self.lo)

    def __neg__(self):
        return mk(-self.t, -self.hi, -self.lo)

    def __pos__(self):
        return self

    def __abs__(self):
        if self.lo >= 0:
            return self
        if self.hi <= 0:
            return -self
        return mk(z3.If(self.t < 0, -self.t, self.t), 0, max(-self.lo, self.hi))

    def __invert__(self):
        return mk(~self.t, -self.hi - 1, -self.lo - 1)

    def __mul__(self, o):
        b = _lift(o)
        if b is None:
            return self._fl(o, "__mul__")
        c = (self.lo * b.lo, self.lo * b.hi, self.hi * b.lo, self.hi * b.hi)
        lo, hi = min(c), max(c)
        if lo <= -LIM or hi >= LIM:
            raise Unsupported("product interval beyond 2**126")
        return mk(self.t * b.t, lo, hi)

    __rmul__ = __mul__

    def __floordiv__(self, o):
        if isinstance(o, bool):
            o = int(o)
        if isinstance(o, int):
            if o == 0:
                raise ZeroDivisionError("integer division or modulo by zero")
            c = (self.lo // o, self.hi // o)
            return mk(_floordiv_term(self.t, o), min(c), max(c))
        if isinstance(o, (SymInt, SymBool)):
            return self // ctx().concretize(_lift(o))
        return NotImplemented

    def __rfloordiv__(self, o):
        return o // ctx().concretize(self)

    def __mod__(self, o):
        if isinstance(o, bool):
            o = int(o)
        if isinstance(o, int):
            if o == 0:
                raise ZeroDivisionError("integer division or modulo by zero")
            if o > 0:
                if self.lo >= 0 and self.hi < o:
                    return self
                lo, hi = 0, o - 1
            else:
                lo, hi = o + 1, 0
            return mk(_mod_term(self.t, o), lo, hi)
        if isinstance(o, (SymInt, SymBool)):
            return self % ctx().concretize(_lift(o))
        return NotImplemented

    def __rmod__(self, o):
        return o % ctx().concretize(self)

    def __divmod__(self, o):
        return (self // o, self % o)

    def __rdivmod__(self, o):
        c = ctx().concretize(self)
        return divmod(o, c)

    def __truediv__(self, o):
        from . import symfloat
        return symfloat.truediv(self, o)

    def __rtruediv__(self, o):
        from . import symfloat
        return symfloat.truediv(o, self)

    def __pow__(self, o):
        if isinstance(o, int) and 0 <= o <= 4:
            r = 1
            for _ in range(o):
                r = r * self
            return r
        raise Unsupported("pow of symbolic int")

    # ---- shifts ------------------------------------------------------------------
    def __lshift__(self, o):
        if isinstance(o, bool):
            o = int(o)
        if isinstance(o, int):
            if o < 0:
                raise ValueError("negative shift count")
            if o > 126:
                raise Unsupported("shift beyond 126")
            return mk(self.t << o, self.lo << o, self.hi << o)
        b = _lift(o)
        if b is None:
            return NotImplemented
        if b.lo < 0:
            if bool(b < 0):
                raise ValueError("negative shift count")
            b = SymInt(b.t, 0, b.hi)
        if b.hi > 126:
            raise Unsupported("shift beyond 126")
        c = (self.lo << b.lo, self.lo << b.hi, self.hi << b.lo, self.hi << b.hi)
        return mk(self.t << b.t, min(c), max(c))

    def __rlshift__(self, o):
        a = _lift(o)
        if a is None:
            return NotImplemented
        return a << self if isinstance(a, SymInt) else NotImplemented

    def __rshift__(self, o):
        if isinstance(o, bool):
            o = int(o)
        if isinstance(o, int):
            if o < 0:
                raise ValueError("negative shift count")
            if o > 127:
                o = 127
            return mk(self.t >> o, self.lo >> o, self.hi >> o)
        b = _lift(o)
        if b is None:
            return NotImplemented
        if b.lo < 0:
            if bool(b < 0):
                raise ValueError("negative shift count")
            b = SymInt(b.t, 0, b.hi)
        bt = b.t
        if b.hi > 127:
            bt = z3.If(b.t > 127, BV(127), b.t)
        c = (self.lo >> b.lo, self.lo >> min(b.hi, 200), self.hi >> b.lo, self.hi >> min(b.hi, 200))
        return mk(self.t >> bt, min(c), max(c))

    def __rrshift__(self, o):
        a = _lift(o)
        if a is None:
            return NotImplemented
        return a >> self

    # ---- bit operations ------------------------------------------------------------
    def __and__(self, o):
        b = _lift(o)
        if b is None:
            return NotImplemented
        if self.lo >= 0 and b.lo >= 0:
            lo, hi = 0, min(self.hi, b.hi)
        elif b.lo >= 0:
            lo, hi = 0, b.hi
        elif self.lo >= 0:
            lo, hi = 0, self.hi
        else:
            n = _bits_bound(self.lo, self.hi, b.lo, b.hi)
            lo, hi = -(1 << n), (1 << n) - 1
        if hi == 0 and lo == 0:
            return 0
        return mk(self.t & b.t, lo, hi)

    __rand__ = __and__

    def __or__(self, o):
        b = _lift(o)
        if b is None:
            return NotImplemented
        n = _bits_bound(self.lo, self.hi, b.lo, b.hi)
        if self.lo >= 0 and b.lo >= 0:
            lo, hi = max(self.lo, b.lo), (1 << n) - 1
        else:
            lo, hi = -(1 << n), (1 << n) - 1
        return mk(self.t | b.t, lo, hi)

    __ror__ = __or__

    def __xor__(self, o):
        b = _lift(o)
        if b is None:
            return NotImplemented
        n = _bits_bound(self.lo, self.hi, b.lo, b.hi)
        if self.lo >= 0 and b.lo >= 0:
            lo, hi = 0, (1 << n) - 1
        else:
            lo, hi = -(1 << n), (1 << n) - 1
        return mk(self.t ^ b.t, lo, hi)

    __rxor__ = __xor__

    # ---- comparisons -------------------------------------------------------------
    def __eq__(self, o):
        b = _lift(o)
        if b is None:
            from . import symfloat
            if isinstance(o, (float, symfloat.SymFloat)):
                return symfloat.compare(self, o, "==")
            return False
        if self.hi < b.lo or self.lo > b.hi:
            return False
        return SymBool(self.t == b.t)

    def __ne__(self, o):
        r = self.__eq__(o)
        if isinstance(r, SymBool):
            return SymBool(z3.Not(r.t))
        return not r

    def _cmp(self, o, op):
        b = _lift(o)
        if b is None:
            from . import symfloat
            if isinstance(o, (float, symfloat.SymFloat)):
                return symfloat.compare(self, o, op)
            return NotImplemented
        if op == "<":
            if self.hi < b.lo:
                return True
            if self.lo >= b.hi:
                return False
            return SymBool(self.t < b.t)
        if op == "<=":
            if self.hi <= b.lo:
                return True
            if self.lo > b.hi:
                return False
            return SymBool(self.t <= b.t)
        if op == ">":
            if self.lo > b.hi:
                return True
            if self.hi <= b.lo:
                return False
            return SymBool(self.t > b.t)
        if op == ">=":
            if self.lo >= b.hi:
                return True
            if self.hi < b.lo:
                return False
            return SymBool(self.t >= b.t)

    def __lt__(self, o): return self._cmp(o, "<")
    def __le__(self, o): return self._cmp(o, "<=")
    def __gt__(self, o): return self._cmp(o, ">")
    def __ge__(self, o): return self._cmp(o, ">=")


# ---- number tokens: symbolic ints rendered into ordinary text --------------------------
# A token is "§<id>:<spec>§"; the id indexes Context.tokens.

TOK = "§"


def format_token(v, spec):
    c = S.ctx
    if c is None:
        return "<sym>"
    return c.make_token(v, spec)


# ---- the exploration context -------------------------------------------------------------

class Node:
    __slots__ = ("val", "alts", "kind", "m", "alt_m")

    def __init__(self, val, alts, kind, m=None, alt_m=None):
        self.val = val
        self.alts = alts
        self.kind = kind
        self.m = m            # a model valid right after taking `val` (or None)
        self.alt_m = alt_m    # a model valid after taking the first alternative


class Violation:
    def __init__(self, label, key, inputs, detail=None):
        self.label = label
        self.key = key
        self.inputs = inputs
        self.detail = detail


class Context:
    def __init__(self, query_timeout_ms=20000, max_decisions=4000, concretize_cap=300, seed=0):
        self.solver = z3.SolverFor("QF_BV") if False else z3.Solver()
        self.solver.set("timeout", query_timeout_ms)
        if seed:
            self.solver.set("random_seed", seed & 0x7FFFFFFF)
        self.query_timeout_ms = query_timeout_ms
        self.fast_ms = 3000
        self.crosscheck_every = 0
        self.crosscheck_max = 0
        self.crosscheck_ms = 20000
        self._last_model = None
        self.max_decisions = max_decisions
        self.concretize_cap = concretize_cap
        self.prefix = []
        self.trace = []
        self.pos = 0
        self.model = None
        self.fresh_count = {}
        self.inputs = []            # [(name, kind, term)] in creation order, this path
        self.tokens = []
        self.observations = []
        self.violations = []
        self.reach = set()
        self.stats = dict(paths=0, decisions=0, q_feas=0, q_oblig=0, q_witness=0,
                          solver_s=0.0, obligations=0, discharged=0, aborted=0,
                          forced=0, model_hits=0)
        self.n_path_constraints = 0

    # ---- path lifecycle ---------------------------------------------------------
    def begin_path(self, prefix):
        self.prefix = prefix
        self.trace = list(prefix)
        self.pos = 0
        self.model = None
        self.fresh_count = {}
        self.inputs = []
        self.tokens = []
        self.observations = []
        self.path_obligations = 0
        self.solver.push()

    def end_path(self):
        self.solver.pop()
        self.stats["paths"] += 1

    def next_prefix(self):
        tr = self.trace
        while tr and not tr[-1].alts:
            tr.pop()
        if not tr:
            return None
        n = tr[-1]
        tr[-1] = Node(n.alts[0], n.alts[1:], n.kind, n.alt_m, None)
        return tr

    # ---- solver helpers -----------------------------------------------------------
    def _check(self, *assumptions, kind="q_feas"):
        """sat? of path condition + assumptions.  The incremental solver gets a short budget first;
        if it gives up, the query is re-decided from scratch by a one-shot solver (z3's
        non-incremental pipeline is far better on FP / conversion-heavy queries)."""
        t0 = time.perf_counter()
        fast = min(self.fast_ms, self.query_timeout_ms)
        self.solver.set("timeout", fast)
        r = self.solver.check(*assumptions)
        if r == z3.sat:
            self._last_model = self.solver.model()
        elif r == z3.unknown:
            s2 = z3.Solver()
            s2.set("timeout", self.query_timeout_ms)
            s2.add(self.solver.assertions())
            s2.add(*assumptions)
            r = s2.check()
            self.stats["oneshot"] = self.stats.get("oneshot", 0) + 1
            if r == z3.sat:
                self._last_model = s2.model()
            elif r == z3.unknown:
                self.stats["solver_s"] += time.perf_counter() - t0
                raise Inconclusive("solver returned unknown (%s)" % s2.reason_unknown())
        dt = time.perf_counter() - t0
        self.stats["solver_s"] += dt
        self.stats[kind] += 1
        if TRACE and dt > 1.0:
            print("[query %.2fs] %s %s" % (dt, kind, r), flush=True)
        return r == z3.sat

    def _model_says(self, t):
        """True/False if the cached model decides t, else None."""
        m = self.model
        if m is None:
            return None
        v = m.eval(t, model_completion=True)
        if z3.is_true(v):
            return True
        if z3.is_false(v):
            return False
        return None

    def _add(self, t):
        self.solver.add(t)

    def branch(self, t):
        if z3.is_true(t):
            return True
        if z3.is_false(t):
            return False
        i = self.pos
        if i < len(self.prefix):
            n = self.trace[i]
            self.pos += 1
            self._add(t if n.val else z3.Not(t))
            self.model = n.m if self.pos == len(self.prefix) else None
            return n.val
        if len(self.trace) >= self.max_decisions:
            raise Inconclusive("max_decisions per path exceeded")
        self.stats["decisions"] += 1
        ms = self._model_says(t)
        nt = z3.Not(t)
        if ms is True:
            self.stats["model_hits"] += 1
            can_t = True
            keep = self.model
            can_f = self._check(nt)
            mf = self._last_model if can_f else None
            mt = keep
        elif ms is False:
            self.stats["model_hits"] += 1
            can_f = True
            mf = self.model
            can_t = self._check(t)
            mt = self._last_model if can_t else None
        else:
            can_t = self._check(t)
            mt = self._last_model if can_t else None
            can_f = self._check(nt)
            mf = self._last_model if can_f else None
        if can_t and can_f:
            node = Node(True, [False], "b", None, mf)
            val = True
        elif can_t:
            node = Node(True, [], "b")
            val = True
            self.stats["forced"] += 1
        elif can_f:
            node = Node(False, [], "b")
            val = False
            self.stats["forced"] += 1
        else:
            raise PathAbort("path condition infeasible")
        self.trace.append(node)
        self.pos += 1
        self._add(t if val else nt)
        self.model = mt if val else mf
        return val

    def concretize(self, x, cap=None):
        """Case-split a symbolic int over all of its feasible values (n-way fork)."""
        if isinstance(x, int):
            return x
        if isinstance(x, SymBool):
            return 1 if bool(x) else 0
        i = self.pos
        if i < len(self.prefix):
            n = self.trace[i]
            self.pos += 1
            self._add(x.t == BV(n.val))
            self.model = None
            return n.val
        cap = cap or self.concretize_cap
        if x.hi - x.lo + 1 <= 0:
            raise PathAbort("empty interval")
        vals = []
        self.solver.push()
        try:
            while True:
                if not self._check():
                    break
                m = self._last_model
                v = m.eval(x.t, model_completion=True).as_signed_long()
                vals.append(v)
                if len(vals) > cap:
                    raise Unsupported("concretize: more than %d feasible values" % cap)
                self.solver.add(x.t != BV(v))
        finally:
            self.solver.pop()
        if not vals:
            raise PathAbort("path condition infeasible")
        vals.sort()
        self.stats["decisions"] += 1
        node = Node(vals[0], vals[1:], "c")
        self.trace.append(node)
        self.pos += 1
        self._add(x.t == BV(vals[0]))
        self.model = None
        return vals[0]

    def assume(self, c):
        if isinstance(c, bool):
            if not c:
                self.stats["aborted"] += 1
                raise PathAbort("assume(False)")
            return
        t = c.t
        ms = self._model_says(t)
        if ms is not True:
            if not self._check(t):
                self.stats["aborted"] += 1
                raise PathAbort("assumption infeasible")
            self.model = self._last_model
        self._add(t)

    # ---- fresh inputs ----------------------------------------------------------------
    def _name(self, name):
        k = self.fresh_count.get(name, 0)
        self.fresh_count[name] = k + 1
        return name if k == 0 else "%s#%d" % (name, k)

    def fresh_int(self, name, lo, hi, bits=None):
        nm = self._name(name)
        if lo == hi:
            self.inputs.append((nm, "const", lo))
            return lo
        if lo >= 0 and bits is None:
            bits = max(1, hi.bit_length())
        if bits is not None and lo >= 0 and bits < W:
            v = z3.BitVec(nm, bits)
            t = z3.ZeroExt(W - bits, v)
            need = hi != (1 << bits) - 1 or lo != 0
        else:
            v = z3.BitVec(nm, W)
            t = v
            need = True
        x = SymInt(t, lo, hi)
        if need:
            self._add(z3.And(t >= BV(lo), t <= BV(hi)))
            self.model = None
        self.inputs.append((nm, "int", t))
        return x

    def fresh_bool(self, name):
        nm = self._name(name)
        v = z3.Bool(nm)
        self.inputs.append((nm, "bool", v))
        return SymBool(v)

    # ---- obligations ---------------------------------------------------------------------
    def prove(self, c, label, key=None, detail=None):
        self.stats["obligations"] += 1
        self.path_obligations += 1
        if isinstance(c, bool):
            if c:
                self.stats["discharged"] += 1
                return True
            self._violation(label, key, detail)
            raise PathAbort("obligation false on this path")
        t = c.t
        _t0 = time.perf_counter()
        try:
            bad = self._check(z3.Not(t), kind="q_oblig")
        finally:
            if TRACE:
                print("[prove %.2fs] %s" % (time.perf_counter() - _t0, label), flush=True)
        if not bad and self.crosscheck_every and self.stats["obligations"] % self.crosscheck_every == 0 \
                and self.stats.get("cvc5_checked", 0) < self.crosscheck_max:
            self._crosscheck(t, label)
        if bad:
            m = self._last_model
            self._violation(label, key, detail, m)
            # continue under the obligation if possible, so further violations are found
            self.assume(c)
            return False
        self.stats["discharged"] += 1
        return True

    def _crosscheck(self, t, label):
        """re-decide a discharged obligation with cvc5 (second solver); disagreement => inconclusive"""
        import subprocess
        import tempfile
        s2 = z3.Solver()
        s2.add(self.solver.assertions())
        s2.add(z3.Not(t))
        text = "(set-logic ALL)\n" + s2.to_smt2()
        with tempfile.NamedTemporaryFile("w", suffix=".smt2", delete=False) as f:
            f.write(text)
            path = f.name
        try:
            r = subprocess.run(["cvc5", "--tlimit=%d" % self.crosscheck_ms, path], capture_output=True, text=True,
                               timeout=self.crosscheck_ms / 1000 + 10)
            out = (r.stdout + r.stderr).strip()
        except Exception as e:        # noqa: BLE001
            out = "error: %s" % e
        finally:
            try:
                os.remove(path)
            except OSError:
                pass
        self.stats["cvc5_checked"] = self.stats.get("cvc5_checked", 0) + 1
        first = out.splitlines()[0] if out else ""
        if first == "unsat" and "(error" not in out:
            self.stats["cvc5_agree"] = self.stats.get("cvc5_agree", 0) + 1
        elif first == "sat":
            raise Inconclusive("cvc5 disagrees with z3 on obligation %r (cvc5: sat)" % label)
        else:
            self.stats["cvc5_unknown"] = self.stats.get("cvc5_unknown", 0) + 1

    def current_inputs(self, model=None):
        if model is None:
            if self.model is None:
                if not self._check(kind="q_witness"):
                    raise PathAbort("infeasible at witness extraction")
                self.model = self._last_model
            model = self.model
        out = {}
        for nm, kind, t in self.inputs:
            if kind == "const":
                out[nm] = t
            elif kind == "int":
                out[nm] = model.eval(t, model_completion=True).as_signed_long()
            elif kind == "bool":
                out[nm] = z3.is_true(model.eval(t, model_completion=True))
            elif kind == "float":
                from . import symfloat
                out[nm] = symfloat.model_float(model, t)
        return out

    def _violation(self, label, key, detail, model=None):
        inputs = self.current_inputs(model)
        self.violations.append(Violation(label, key or label, inputs, detail))

    def eval_value(self, v, model):
        """Evaluate an observation (possibly nested, possibly symbolic) under a model."""
        from . import symbytes, symfloat, symstr
        if isinstance(v, symstr.SymStr):
            return "".join(chr(self.eval_value(c, model)) for c in v._cps)
        if isinstance(v, SymInt):
            return model.eval(v.t, model_completion=True).as_signed_long()
        if isinstance(v, SymBool):
            return z3.is_true(model.eval(v.t, model_completion=True))
        if isinstance(v, symfloat.SymFloat):
            return symfloat.model_float(model, v.t)
        if isinstance(v, (symbytes.SymBytes, symbytes.SymByteArray)):
            return bytes(self.eval_value(b, model) for b in v._items)
        if isinstance(v, (bytes, bytearray)):
            return bytes(v)
        if isinstance(v, (list, tuple)):
            return [self.eval_value(e, model) for e in v]
        if isinstance(v, dict):
            return {str(k): self.eval_value(e, model) for k, e in v.items()}
        if isinstance(v, str):
            return self.resolve_tokens(v, model)
        return v

    # ---- tokens ---------------------------------------------------------------------
    def make_token(self, v, spec):
        self.tokens.append(v)
        return "%s%d|%s%s" % (TOK, len(self.tokens) - 1, spec, TOK)

    def resolve_tokens(self, text, model):
        if TOK not in text:
            return text
        import re

        def sub(m):
            v = self.eval_value(self.tokens[int(m.group(1))], model)
            spec = m.group(2)
            if spec == "r":
                return repr(v)
            if spec == "hex":
                return hex(v)
            return format(v, spec)
        return re.sub(TOK + r"(\d+)\|([^%s]*)%s" % (TOK, TOK), sub, text)
