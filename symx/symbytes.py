"""Byte-sequence proxies.  A value whose elements are all concrete ints *is* a real bytes
object; only values containing a symbolic byte are SymBytes.  bytearray() in loaded canopen
code always yields a SymByteArray (mutable list of int | SymInt(0..255))."""
import builtins

from .core import SymInt, SymBool, Unsupported, ctx, S, format_token, is_sym
import z3

_rbytes = builtins.bytes
_rbytearray = builtins.bytearray


def _check_byte(v):
    """Python raises ValueError for a byte outside range(256)."""
    if isinstance(v, SymBool):
        v = v._as_int()
    if isinstance(v, SymInt):
        if v.lo >= 0 and v.hi <= 255:
            return v
        ok = (v >= 0) & (v <= 255)
        if bool(ok):
            return SymInt(v.t, max(v.lo, 0), min(v.hi, 255))
        raise ValueError("byte must be in range(0, 256)")
    if isinstance(v, int):
        if not 0 <= v <= 255:
            raise ValueError("byte must be in range(0, 256)")
        return int(v)
    raise TypeError("an integer is required")


def _items_of(x):
    if isinstance(x, (SymBytes, SymByteArray)):
        return list(x._items)
    if isinstance(x, SymMemView):
        return x._current()
    if isinstance(x, (_rbytes, _rbytearray, memoryview)):
        return list(_rbytes(x))
    return None


def mkbytes(items):
    for b in items:
        if not type(b) is int:
            return SymBytes(items)
    return _rbytes(items)


def _from_args(args, kwargs, what):
    if not args:
        return []
    src = args[0]
    if isinstance(src, str):
        return list(src.encode(*args[1:], **kwargs))
    it = _items_of(src)
    if it is not None:
        return it
    if isinstance(src, SymBool):
        src = src._as_int()
    if isinstance(src, (int, SymInt)) and not isinstance(src, bool):
        n = src.__index__()
        if n < 0:
            raise ValueError("negative count")
        return [0] * n
    if isinstance(src, bool):
        return [0] * int(src)
    try:
        seq = list(src)
    except TypeError:
        raise TypeError("cannot convert %r object to %s" % (type(src).__name__, what))
    return [_check_byte(b) for b in seq]


class SymMemView:
    """Read-only memoryview over a list that somebody else owns and may overwrite (the internal buffer of a
    BufferedWriter, a caller's bytearray): every access sees the *current* content, slices alias the same
    memory, exactly like the memoryview CPython's buffered writer hands to raw.write()."""
    __slots__ = ("_base", "_start", "_stop", "_ro")

    def __init__(self, base, start, stop, ro=True):
        self._base, self._start, self._stop, self._ro = base, start, stop, ro

    @property
    def readonly(self):
        return self._ro

    def __setitem__(self, i, v):
        """memoryview(bytearray) is writable: writes go through to the owner, the size cannot change"""
        if self._ro:
            raise TypeError("cannot modify read-only memory")
        n = self._stop - self._start
        if isinstance(i, slice):
            a, b, st = i.indices(n)
            it = _items_of(v)
            if it is None:
                it = [_check_byte(x) for x in v]
            idx = list(range(a, b, st))
            if len(idx) != len(it):
                raise ValueError("memoryview assignment: lvalue and rvalue have different structures")
            for k, x in zip(idx, it):
                self._base[self._start + k] = x
            return
        i = i.__index__()
        if i < 0:
            i += n
        if not 0 <= i < n:
            raise IndexError("index out of bounds on dimension 1")
        self._base[self._start + i] = _check_byte(v)

    def _current(self):
        return list(self._base[self._start:self._stop])

    def __len__(self):
        return self._stop - self._start

    def __iter__(self):
        return iter(self._current())

    def __bool__(self):
        return self._stop > self._start

    def __getitem__(self, i):
        n = self._stop - self._start
        if isinstance(i, slice):
            a, b, st = i.indices(n)
            if st != 1:
                return mkbytes(self._current()[i])
            b = max(a, b)
            return SymMemView(self._base, self._start + a, self._start + b, self._ro)
        i = i.__index__()
        if i < 0:
            i += n
        if not 0 <= i < n:
            raise IndexError("index out of bounds on dimension 1")
        return self._base[self._start + i]

    def __eq__(self, o):
        return mkbytes(self._current()) == o

    def __ne__(self, o):
        return mkbytes(self._current()) != o

    __hash__ = None
    itemsize = 1
    ndim = 1
    format = "B"

    @property
    def nbytes(self):
        return len(self)

    def tobytes(self):
        return mkbytes(self._current())

    def __bytes__(self):
        return _rbytes(b.__index__() for b in self._current())

    def tolist(self):
        return self._current()

    def hex(self, *a):
        return bytes(self).hex(*a)

    def release(self):
        pass

    def __enter__(self):
        return self

    def __exit__(self, *a):
        return False


class _Common:
    __slots__ = ("_items",)
    _mutable = False

    def __getattr__(self, name):
        # a bytes/bytearray method this proxy does not model: inconclusive, not a crash that looks like a finding
        if (hasattr(_rbytes, name) or hasattr(_rbytearray, name)) and not name.startswith("__"):
            raise Unsupported("%s.%s" % (type(self).__name__, name))
        raise AttributeError(name)

    def _new(self, items):
        if self._mutable:
            return SymByteArray(items)
        return mkbytes(items)

    def __len__(self):
        return len(self._items)

    def __iter__(self):
        return iter(self._items)

    def __bool__(self):
        return bool(self._items)

    def __getitem__(self, i):
        if isinstance(i, slice):
            return self._new(self._items[i])
        return self._items[i]

    def __add__(self, o):
        it = _items_of(o)
        if it is None:
            return NotImplemented
        return self._new(self._items + it)

    def __radd__(self, o):
        it = _items_of(o)
        if it is None:
            return NotImplemented
        if isinstance(o, (_rbytearray, SymByteArray)):
            return SymByteArray(it + self._items)
        return mkbytes(it + self._items)

    def __mul__(self, n):
        return self._new(self._items * n.__index__())

    __rmul__ = __mul__

    def _strip(self, chars, left, right):
        if chars is None:
            cs = [9, 10, 11, 12, 13, 32]
        else:
            cs = _items_of(chars)
            if cs is None:
                raise TypeError("a bytes-like object is required")
        items = list(self._items)

        def hit(b):
            for c in cs:
                if b == c:              # forks on a symbolic byte
                    return True
            return False
        if right:
            while items and hit(items[-1]):
                items.pop()
        if left:
            while items and hit(items[0]):
                items.pop(0)
        return self._new(items)

    def rstrip(self, chars=None):
        return self._strip(chars, False, True)

    def lstrip(self, chars=None):
        return self._strip(chars, True, False)

    def strip(self, chars=None):
        return self._strip(chars, True, True)

    def __eq__(self, o):
        it = _items_of(o)
        if it is None:
            return False
        if len(it) != len(self._items):
            return False
        conj = []
        for a, b in zip(self._items, it):
            r = (a == b)
            if r is False:
                return False
            if r is True:
                continue
            conj.append(r.t)
        if not conj:
            return True
        return SymBool(z3.And(*conj) if len(conj) > 1 else conj[0])

    def __ne__(self, o):
        r = self.__eq__(o)
        if isinstance(r, SymBool):
            return ~r
        return not r

    def __hash__(self):
        return hash(_rbytes(b.__index__() for b in self._items))

    def __bytes__(self):
        return _rbytes(b.__index__() for b in self._items)

    def __contains__(self, x):
        for b in self._items:
            if b == x:
                return True
        return False

    def ljust(self, width, fill=b" "):
        n = len(self._items)
        if n >= width:
            return self._new(list(self._items))
        return self._new(self._items + list(fill) * (width - n))

    def rjust(self, width, fill=b" "):
        n = len(self._items)
        if n >= width:
            return self._new(list(self._items))
        return self._new(list(fill) * (width - n) + self._items)

    def hex(self, sep=None, bytes_per_sep=1):
        parts = [format(b, "02x") if type(b) is int else format_token(b, "02x") for b in self._items]
        return (sep or "").join(parts)

    def decode(self, encoding="utf-8", errors="strict"):
        from . import symstr
        return symstr.decode(self._items, encoding, errors)

    def tobytes(self):
        return mkbytes(list(self._items))

    def count(self, x):
        raise Unsupported("bytes.count on symbolic bytes")

    def find(self, sub, start=0, end=None):
        """first position of `sub` (bytes-like or a single int); every candidate position is a branch"""
        pat = [sub] if isinstance(sub, int) or hasattr(sub, "t") else (_items_of(sub) if _items_of(sub) is not None else list(sub))
        n = len(self._items)
        a, b, _ = slice(start, end).indices(n)
        if not pat:
            return a if a <= b else -1
        for i in range(a, b - len(pat) + 1):
            ok = True
            for j, p in enumerate(pat):
                if not bool(self._items[i + j] == p):      # symbolic comparison: forks
                    ok = False
                    break
            if ok:
                return i
        return -1

    def index(self, sub, start=0, end=None):
        i = self.find(sub, start, end)
        if i < 0:
            raise ValueError("subsection not found")
        return i

    def __repr__(self):
        return "%s(%s)" % (type(self).__name__, self.hex())

    def __str__(self):
        return repr(self)

    def __format__(self, spec):
        return repr(self)


class SymBytes(_Common):
    __slots__ = ()

    def __init__(self, items):
        self._items = list(items)


class SymByteArray(_Common):
    __slots__ = ()
    _mutable = True

    def __init__(self, items=()):
        self._items = list(items)

    __hash__ = None

    def __setitem__(self, i, v):
        if isinstance(i, slice):
            it = _items_of(v)
            if it is None:
                it = [_check_byte(b) for b in v]
            self._items[i] = it
        else:
            self._items[i] = _check_byte(v)

    def __delitem__(self, i):
        del self._items[i]

    def __iadd__(self, o):
        self.extend(o)
        return self

    def extend(self, o):
        it = _items_of(o)
        if it is None:
            it = [_check_byte(b) for b in o]
        self._items.extend(it)

    def append(self, v):
        self._items.append(_check_byte(v))

    def clear(self):
        self._items = []

    def copy(self):
        return SymByteArray(self._items)


class _BytesMeta(type):
    def __instancecheck__(cls, inst):
        return isinstance(inst, (_rbytes, SymBytes))

    def __subclasscheck__(cls, sub):
        return sub is cls or issubclass(sub, (_rbytes, SymBytes))


class bytes_(metaclass=_BytesMeta):
    """Stand-in for the builtin name `bytes` inside loaded canopen modules."""

    def __new__(cls, *args, **kwargs):
        return mkbytes(_from_args(args, kwargs, "bytes"))

    @staticmethod
    def fromhex(s):
        from .core import TOK
        if TOK in s:
            # text with a number token in it: whatever digits the token stands for, a character outside the number
            # that is no hex digit (the 'x' of a 0x prefix, a sign) makes CPython raise ValueError
            import re as _re
            rest = _re.sub(_re.escape(TOK) + r"[^" + _re.escape(TOK) + r"]*" + _re.escape(TOK), "", s)
            if any(c not in "0123456789abcdefABCDEF \t\n\r\f\v" for c in rest):
                raise ValueError("non-hexadecimal number found in fromhex() arg")
            raise Unsupported("bytes.fromhex of tokenised text")
        return _rbytes.fromhex(s)

    @staticmethod
    def hex(v, *a):
        return v.hex(*a)

    maketrans = _rbytes.maketrans


class _ByteArrayMeta(type):
    def __instancecheck__(cls, inst):
        return isinstance(inst, (_rbytearray, SymByteArray))

    def __subclasscheck__(cls, sub):
        return sub is cls or issubclass(sub, (_rbytearray, SymByteArray))


class bytearray_(metaclass=_ByteArrayMeta):
    def __new__(cls, *args, **kwargs):
        return SymByteArray(_from_args(args, kwargs, "bytearray"))

    @staticmethod
    def fromhex(s):
        return SymByteArray(list(_rbytes.fromhex(s)))


class _MemViewMeta(type):
    def __instancecheck__(cls, inst):
        return isinstance(inst, (memoryview, SymMemView))

    def __subclasscheck__(cls, sub):
        return sub is cls or issubclass(sub, (memoryview, SymMemView))


class memoryview_(metaclass=_MemViewMeta):
    """Stand-in for the builtin name `memoryview` inside loaded canopen modules."""

    def __new__(cls, obj):
        if isinstance(obj, SymMemView):
            return obj
        if isinstance(obj, SymByteArray):
            return SymMemView(obj._items, 0, len(obj._items), False)      # aliases as long as the length is kept
        if isinstance(obj, SymBytes):
            return SymMemView(list(obj._items), 0, len(obj._items))
        return memoryview(obj)


def is_byteslike(x):
    return isinstance(x, (_rbytes, _rbytearray, SymBytes, SymByteArray, SymMemView))


def fresh_bytes(name, n):
    c = ctx()
    return mkbytes([c.fresh_int("%s[%d]" % (name, i), 0, 255, bits=8) for i in range(n)])
