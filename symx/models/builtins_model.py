"""Substituted builtins for loaded canopen modules (symbolic-aware, builtin semantics)."""
import builtins as _b
import re
import z3

from ..core import SymInt, SymBool, Unsupported, TOK, S, format_token, _lift, BV
from .. import symfloat, symbytes, symdict, symstr
from ..symfloat import SymFloat


# ---- number tokens inside text -----------------------------------------------------------------
_TOKRE = re.compile(r"^\s*([+-]?)\s*(0[xX])?%s(\d+)\|([^%s]*)%s\s*$" % (TOK, TOK, TOK))


def parse_int_text(text, base):
    """int(text, base) for text that contains a number token."""
    m = _TOKRE.match(text)
    if m is None:
        rest = re.sub(TOK + r"\d+\|[^%s]*%s" % (TOK, TOK), "", text)
        if re.search(r"[^0-9a-fA-FxXoObB_+\-\s]", rest) or rest.strip().count("+") + rest.strip().count("-") > 1 \
                or re.search(r"[+\-]\s*$", rest.strip()) and rest.strip() not in ("+", "-"):
            # characters around the number that no integer literal can contain
            raise ValueError("invalid literal for int() with base %r: %r" % (base, text))
        raise Unsupported("int() of text mixing a number token with other characters: %r" % text)
    sign, prefix, tid, spec = m.groups()
    c = S.ctx
    v = c.tokens[int(tid)]
    if isinstance(v, SymBool):
        v = v._as_int()
    sp = spec.lower()
    if sp in ("", "d", "r"):
        kind = "dec"
    elif sp == "hex":
        kind = "pyhex"          # text produced by hex(): [-]0x...
    elif re.fullmatch(r"0?\d*x", sp):
        kind = "hexdigits"      # bare hex digits, '-' in front when negative
    else:
        raise Unsupported("int() of a token with format spec %r" % spec)
    if base not in (0, 10, 16):
        raise Unsupported("int() of a token with base %r" % base)
    neg = v < 0
    if kind == "dec":
        if prefix:
            # "0x<decimal digits>" would reinterpret the digits; not expressible
            raise Unsupported("decimal token behind a 0x prefix")
        if base == 16:
            raise Unsupported("decimal token parsed with base 16")
        val = v
    elif kind == "pyhex":
        if prefix:
            raise ValueError("invalid literal for int() with base %d: %r" % (base, text))
        if base == 10:
            raise ValueError("invalid literal for int() with base 10: %r" % text)
        val = v
    else:
        # bare hex digits: need a 0x prefix (base 0) or base 16
        if not prefix and base != 16:
            raise Unsupported("bare hex token without prefix in base %d" % base)
        if prefix and base == 10:
            raise ValueError("invalid literal for int() with base 10: %r" % text)
        if prefix:
            # "0x-5" is not a literal
            if neg if isinstance(neg, bool) else bool(neg):
                raise ValueError("invalid literal for int() with base %d: %r" % (base, text))
        val = v
    if sign == "-":
        if kind != "dec" and not prefix:
            pass
        # "-" followed by a negative number's text ("--5") is invalid
        if neg if isinstance(neg, bool) else bool(neg):
            raise ValueError("invalid literal for int() with base %d: %r" % (base, text))
        return -val
    if sign == "+":
        if neg if isinstance(neg, bool) else bool(neg):
            raise ValueError("invalid literal for int() with base %d: %r" % (base, text))
    return val


class _IntMeta(type):
    def __instancecheck__(cls, inst):
        return isinstance(inst, (_b.int, SymInt, SymBool))

    def __subclasscheck__(cls, sub):
        return sub is cls or issubclass(sub, _b.int)


class int_(metaclass=_IntMeta):
    def __new__(cls, x=0, base=None, **kw):
        if "base" in kw:
            base = kw["base"]
        if base is None:
            if isinstance(x, SymInt):
                return x
            if isinstance(x, SymBool):
                return x._as_int()
            if isinstance(x, SymFloat):
                return x.trunc()
            if isinstance(x, symstr.SymStr):
                raise Unsupported("int() of symbolic text")
            if isinstance(x, str) and TOK in x:
                return parse_int_text(x, 10)
            return _b.int(x)
        if isinstance(x, str) and TOK in x:
            return parse_int_text(x, base.__index__())
        return _b.int(x, base)

    @staticmethod
    def from_bytes(data, byteorder="big", *, signed=False):
        from .struct_model import _int_from_items
        items = symbytes._items_of(data)
        if items is None:
            items = [symbytes._check_byte(b) for b in data]
        if byteorder not in ("little", "big"):
            raise ValueError("byteorder must be either 'little' or 'big'")
        if not items:
            return 0
        if len(items) > 15:
            if all(type(b) is _b.int for b in items):
                return _b.int.from_bytes(_b.bytes(items), byteorder, signed=signed)
            raise Unsupported("int.from_bytes of more than 15 symbolic bytes")
        return _int_from_items(items, signed, byteorder == "big")


class _BoolMeta(type):
    def __instancecheck__(cls, inst):
        return isinstance(inst, (_b.bool, SymBool))


class bool_(metaclass=_BoolMeta):
    def __new__(cls, x=False):
        if isinstance(x, SymBool):
            return x
        if isinstance(x, SymInt):
            return x != 0
        if isinstance(x, SymFloat):
            return x != 0.0
        return _b.bool(x)


class _FloatMeta(type):
    def __instancecheck__(cls, inst):
        return isinstance(inst, (_b.float, SymFloat))


class float_(metaclass=_FloatMeta):
    def __new__(cls, x=0.0):
        if isinstance(x, SymFloat):
            return x
        if isinstance(x, (SymInt, SymBool)):
            return symfloat.lift(x)
        if isinstance(x, str) and TOK in x:
            raise Unsupported("float() of tokenised text")
        return _b.float(x)

    fromhex = _b.float.fromhex


class _StrMeta(type):
    def __instancecheck__(cls, inst):
        return isinstance(inst, (_b.str, symstr.SymStr))


class str_(metaclass=_StrMeta):
    def __new__(cls, *a, **k):
        if len(a) == 1 and not k:
            x = a[0]
            if isinstance(x, (SymInt, SymBool)):
                return format_token(x, "")
            if isinstance(x, symstr.SymStr):
                return x
        return _b.str(*a, **k)

    join = _b.str.join
    maketrans = _b.str.maketrans
    lower = _b.str.lower
    upper = _b.str.upper


def _ite(c, a, b):
    la, lb = _lift(a), _lift(b)
    return SymInt(z3.If(c.t, la.t, lb.t), min(la.lo, lb.lo), max(la.hi, lb.hi))


def _minmax(args, key, default, ismin):
    if key is not None or default is not None:
        return (_b.min if ismin else _b.max)(*args, key=key) if default is None else \
               (_b.min if ismin else _b.max)(*args, key=key, default=default)
    seq = args if len(args) > 1 else list(args[0])
    if not any(isinstance(x, (SymInt, SymBool)) for x in seq) or \
            any(isinstance(x, (SymFloat, float)) for x in seq):
        return (_b.min if ismin else _b.max)(seq)
    acc = seq[0]
    for x in seq[1:]:
        c = (x < acc) if ismin else (x > acc)
        if isinstance(c, _b.bool):
            acc = x if c else acc
        else:
            acc = _ite(c, x, acc)
    return acc


def min_(*args, key=None, default=None):
    return _minmax(args, key, default, True)


def max_(*args, key=None, default=None):
    return _minmax(args, key, default, False)


def hex_(x):
    if isinstance(x, (SymInt, SymBool)):
        return format_token(x, "hex")
    return _b.hex(x)


def round_(x, nd=None):
    if isinstance(x, (SymInt, SymBool)) and nd is None:
        return _lift(x) if not isinstance(x, SymInt) else x
    if nd is None:
        return _b.round(x)
    return _b.round(x, nd)


class _Range:
    __slots__ = ("_r",)

    def __init__(self, r):
        self._r = r

    def __iter__(self):
        return iter(self._r)

    def __len__(self):
        return len(self._r)

    def __getitem__(self, i):
        r = self._r[i]
        return _Range(r) if isinstance(r, _b.range) else r

    def __reversed__(self):
        return reversed(self._r)

    def __contains__(self, x):
        if isinstance(x, SymBool):
            x = x._as_int()
        if isinstance(x, SymInt):
            r = self._r
            if len(r) == 0:
                return False
            if r.step > 0:
                c = (x >= r.start) & (x < r.stop)
                if r.step != 1:
                    c = c & ((x - r.start) % r.step == 0)
            else:
                c = (x <= r.start) & (x > r.stop)
                if r.step != -1:
                    c = c & ((r.start - x) % (-r.step) == 0)
            return c if isinstance(c, _b.bool) else _b.bool(c)
        return x in self._r

    def __eq__(self, o):
        if isinstance(o, _Range):
            return self._r == o._r
        return self._r == o

    def __hash__(self):
        return hash(self._r)

    def __repr__(self):
        return repr(self._r)

    def index(self, x):
        return self._r.index(x)

    def count(self, x):
        return self._r.count(x)

    @property
    def start(self): return self._r.start
    @property
    def stop(self): return self._r.stop
    @property
    def step(self): return self._r.step


class _RangeMeta(type):
    def __instancecheck__(cls, inst):
        return isinstance(inst, (_b.range, _Range))


class range_(metaclass=_RangeMeta):
    def __new__(cls, *a):
        return _Range(_b.range(*[x.__index__() for x in a]))


def make_builtins(importer):
    d = dict(vars(_b))
    d.update({
        "int": int_, "bool": bool_, "float": float_, "str": str_,
        "bytes": symbytes.bytes_, "bytearray": symbytes.bytearray_, "memoryview": symbytes.memoryview_,
        "dict": symdict.dict_, "set": symdict.set_,
        "min": min_, "max": max_, "hex": hex_, "round": round_, "range": range_,
        "__import__": importer,
        "__symx_dict__": symdict.SymDict, "__symx_set__": symdict.SymSet,
    })
    return d
