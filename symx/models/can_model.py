"""Model of the python-can surface canopen touches.  python-can itself is outside the scope;
what canopen hands to it is recorded unchanged."""
import types


class CanError(Exception):
    pass


class CanOperationError(CanError):
    pass


class Message:
    def __init__(self, timestamp=0.0, arbitration_id=0, is_extended_id=True,
                 is_remote_frame=False, is_error_frame=False, channel=None, dlc=None,
                 data=None, is_fd=False, is_rx=True, bitrate_switch=False,
                 error_state_indicator=False, check=False):
        self.timestamp = timestamp
        self.arbitration_id = arbitration_id
        self.is_extended_id = is_extended_id
        self.is_remote_frame = is_remote_frame
        self.is_error_frame = is_error_frame
        self.channel = channel
        self.is_fd = is_fd
        self.is_rx = is_rx
        # python-can: data is always a bytearray (empty when none was given), dlc defaults to its length
        if data is None:
            data = bytearray()
        else:
            from ..symbytes import SymByteArray, _items_of
            it = _items_of(data)
            if it is None:
                it = list(data)
            data = bytearray(it) if all(type(b) is int for b in it) else SymByteArray(it)
        self.data = data
        self.dlc = len(data) if dlc is None else dlc

    def __repr__(self):
        return "Message(id=%r, ext=%r, rtr=%r, data=%r)" % (
            self.arbitration_id, self.is_extended_id, self.is_remote_frame, self.data)


class Listener:
    def on_message_received(self, msg):
        raise NotImplementedError

    def __call__(self, msg):
        self.on_message_received(msg)

    def on_error(self, exc):
        pass

    def stop(self):
        pass


def _copy(data):
    if data is None:
        return None
    from ..symbytes import mkbytes, _items_of
    it = _items_of(data)
    if it is None:
        it = list(data)
    return mkbytes(it)


class CyclicTask:
    """A cyclic send task registered at the model bus; `live` until stop()."""

    def __init__(self, bus, msg, period):
        self.bus = bus
        self.msg = msg
        # the task snapshots the frame content at creation (like a kernel BCM job)
        self.snapshot = (msg.arbitration_id, msg.is_extended_id, msg.is_remote_frame, _copy(msg.data))
        self.period = period
        self.live = True
        self.stops = 0

    def stop(self):
        self.live = False
        self.stops += 1


class ModifiableCyclicTask(CyclicTask):
    def modify_data(self, msg):
        # python-can: the new message replaces the old one (same arbitration id required); its format and
        # remote flags are the ones transmitted from now on
        if not bool(msg.arbitration_id == self.snapshot[0]):
            raise ValueError("The arbitration ID of new cyclic messages cannot be changed from when the task was "
                             "created")
        self.snapshot = (msg.arbitration_id, msg.is_extended_id, msg.is_remote_frame, _copy(msg.data))


class BusABC:
    channel_info = "symx model bus"

    def __init__(self, *a, modifiable=True, **k):
        self.sent = []
        self.tasks = []
        self.modifiable = modifiable
        self.is_shutdown = False
        self.fail_next = 0

    def send(self, msg, timeout=None):
        if self.fail_next:
            self.fail_next -= 1
            raise CanError("model bus: transmit buffer full")
        # a bus serialises the frame when send() is called: later changes of the message object are not sent
        self.sent.append(Message(timestamp=msg.timestamp, arbitration_id=msg.arbitration_id,
                                 is_extended_id=msg.is_extended_id, is_remote_frame=msg.is_remote_frame,
                                 is_error_frame=msg.is_error_frame, channel=getattr(msg, "channel", None),
                                 dlc=getattr(msg, "dlc", None), data=_copy(msg.data)))

    def send_periodic(self, msgs, period, duration=None, store_task=True, **kw):
        cls = ModifiableCyclicTask if self.modifiable else CyclicTask
        t = cls(self, msgs, period)
        self.tasks.append(t)
        return t

    def live_tasks(self):
        return [t for t in self.tasks if t.live]

    def shutdown(self):
        self.is_shutdown = True
        for t in self.tasks:
            t.live = False

    def stop_all_periodic_tasks(self, *a, **k):
        for t in self.tasks:
            t.live = False


Bus = BusABC


class Notifier:
    def __init__(self, bus, listeners, timeout=1.0, loop=None):
        self.bus = bus
        self.listeners = listeners
        self.exception = None
        self.stopped = False

    def stop(self, timeout=5):
        self.stopped = True

    def add_listener(self, l):
        self.listeners.append(l)


can = types.ModuleType("can")
for _k, _v in dict(CanError=CanError, CanOperationError=CanOperationError, Message=Message,
                   Listener=Listener, BusABC=BusABC, Bus=Bus, Notifier=Notifier,
                   CyclicTask=CyclicTask, ModifiableCyclicTask=ModifiableCyclicTask).items():
    setattr(can, _k, _v)
