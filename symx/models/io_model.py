"""Model of the parts of `io` canopen uses: RawIOBase (documented raw-I/O contract) and the
buffered wrappers.  BufferedWriter/BufferedReader follow the CPython C implementation
(policy 'c'), the pure-Python reference `_pyio` (policy 'pyio'), or a nondeterministic
chunker covering both and any caller-driven flush (policy 'nondet')."""
import io as _rio

from ..core import Unsupported
from ..env import ENV
from ..symbytes import SymByteArray, SymBytes, mkbytes, _items_of

DEFAULT_BUFFER_SIZE = _rio.DEFAULT_BUFFER_SIZE
UnsupportedOperation = _rio.UnsupportedOperation
BytesIO = _rio.BytesIO
StringIO = _rio.StringIO
SEEK_SET, SEEK_CUR, SEEK_END = 0, 1, 2


class FixedBuf(SymByteArray):
    """A pre-allocated writable buffer (what readinto() receives): like a memoryview, slice
    assignment must not change its size."""
    __slots__ = ()

    def __setitem__(self, i, v):
        if isinstance(i, slice):
            it = _items_of(v)
            if it is None:
                it = list(v)
            if len(range(*i.indices(len(self._items)))) != len(it):
                raise ValueError("memoryview assignment: lvalue and rvalue have different structures")
        SymByteArray.__setitem__(self, i, v)

    def __delitem__(self, i):
        raise TypeError("cannot delete memory")

    def extend(self, o):
        raise TypeError("cannot resize a pre-allocated buffer")


class IOBase:
    _closed = False

    @property
    def closed(self):
        return self._closed

    def close(self):
        if not self._closed:
            try:
                self.flush()
            finally:
                self._closed = True

    def flush(self):
        if self._closed:
            raise ValueError("I/O operation on closed file.")

    def __enter__(self):
        if self.closed:
            raise ValueError("I/O operation on closed file.")
        return self

    def __del__(self):
        # like _io._IOBase: the finalizer closes an open stream, errors are swallowed
        try:
            closed = self.closed
        except Exception:
            return
        if not closed:
            try:
                self.close()
            except Exception:
                pass

    def __exit__(self, *a):
        self.close()

    def readable(self):
        return False

    def writable(self):
        return False

    def seekable(self):
        return False

    def isatty(self):
        return False

    def fileno(self):
        raise UnsupportedOperation("fileno")

    def tell(self):
        return self.seek(0, 1)

    def seek(self, *a):
        raise UnsupportedOperation("seek")

    def truncate(self, *a):
        raise UnsupportedOperation("truncate")

    def _checkClosed(self):
        if self.closed:
            raise ValueError("I/O operation on closed file.")


class RawIOBase(IOBase):
    def read(self, size=-1):
        if size is None or size < 0:
            return self.readall()
        b = FixedBuf([0] * size.__index__())
        n = self.readinto(b)
        if n is None:
            return None
        return mkbytes(b._items[:n])

    def readall(self):
        res = []
        while True:
            data = self.read(DEFAULT_BUFFER_SIZE)
            if not data:
                break
            res.extend(_items_of(data))
        return mkbytes(res)

    def readinto(self, b):
        raise UnsupportedOperation("readinto")

    def write(self, b):
        raise UnsupportedOperation("write")


class BufferedIOBase(IOBase):
    pass


def _choice(n, label):
    from .. import api
    return api.choice(n, label)


class BufferedWriter(BufferedIOBase):
    def __init__(self, raw, buffer_size=DEFAULT_BUFFER_SIZE):
        if not raw.writable():
            raise OSError('"raw" argument must be writable.')
        if buffer_size <= 0:
            raise ValueError("invalid buffer size")
        self.raw = raw
        self.buffer_size = buffer_size
        self._buf = []

    def writable(self):
        return True

    @property
    def closed(self):
        return self.raw.closed

    def _raw_write(self, items):
        n = self.raw.write(mkbytes(items))
        if n is None:
            raise BlockingIOError(11, "write could not complete without blocking", 0)
        n = n.__index__()
        if n < 0 or n > len(items):
            raise OSError("raw write() returned invalid length %d (should have been between 0 "
                          "and %d)" % (n, len(items)))
        if n == 0:
            # CPython would call raw.write() again forever; outside the claim
            raise Unsupported("raw write() made no progress")
        return n

    def _flush_buf(self, keep_if_fits=False):
        while self._buf:
            n = self._raw_write(self._buf)
            del self._buf[:n]

    def write(self, b):
        if self.closed:
            raise ValueError("write to closed file")
        items = _items_of(b)
        if items is None:
            raise TypeError("a bytes-like object is required")
        pol = ENV.io_policy
        if pol == "c":
            if len(self._buf) + len(items) <= self.buffer_size:
                self._buf.extend(items)
                return len(items)
            self._flush_buf()
            rest = list(items)
            while len(rest) > self.buffer_size:
                n = self._raw_write(rest)
                del rest[:n]
            self._buf = rest
            return len(items)
        if pol == "pyio":
            if len(self._buf) > self.buffer_size:
                self._flush_buf()
            self._buf.extend(items)
            if len(self._buf) > self.buffer_size:
                self._flush_buf()
            return len(items)
        # nondeterministic chunker
        if self._buf and _choice(2, "bufw.flush_before"):
            self._flush_buf()
        self._buf.extend(items)
        while self._buf and (len(self._buf) > self.buffer_size or _choice(2, "bufw.flush_after")):
            n = self._raw_write(self._buf)
            del self._buf[:n]
        return len(items)

    def flush(self):
        if self.closed:
            raise ValueError("flush of closed file")
        self._flush_buf()

    def close(self):
        if self.raw is not None and not self.closed:
            try:
                self.flush()
            finally:
                self.raw.close()

    def tell(self):
        return self.raw.tell() + len(self._buf)

    def detach(self):
        raise Unsupported("BufferedWriter.detach")


class BufferedReader(BufferedIOBase):
    def __init__(self, raw, buffer_size=DEFAULT_BUFFER_SIZE):
        if not raw.readable():
            raise OSError('"raw" argument must be readable.')
        if buffer_size <= 0:
            raise ValueError("invalid buffer size")
        self.raw = raw
        self.buffer_size = buffer_size
        self._buf = []

    def readable(self):
        return True

    @property
    def closed(self):
        return self.raw.closed

    def _raw_readinto(self, size):
        b = FixedBuf([0] * size)
        n = self.raw.readinto(b)
        if n is None:
            return None
        n = n.__index__()
        if n < 0 or n > size:
            raise OSError("raw readinto() returned invalid length %d (should have been between "
                          "0 and %d)" % (n, size))
        return b._items[:n]

    def read(self, size=-1):
        if self.closed:
            raise ValueError("read of closed file")
        if size is None or size < 0:
            out = self._buf
            self._buf = []
            data = self.raw.readall()
            if data is not None:
                out = out + _items_of(data)
            return mkbytes(out)
        size = size.__index__()
        out = self._buf[:size]
        del self._buf[:size]
        remaining = size - len(out)
        pol = ENV.io_policy
        if pol == "c":
            # direct reads in multiples of the buffer size, then through the buffer
            while remaining > 0:
                r = remaining - remaining % self.buffer_size
                if r == 0:
                    break
                got = self._raw_readinto(r)
                if not got:
                    return mkbytes(out)
                out.extend(got)
                remaining -= len(got)
            while remaining > 0:
                got = self._raw_readinto(self.buffer_size - len(self._buf))
                if not got:
                    break
                self._buf.extend(got)
                take = self._buf[:remaining]
                del self._buf[:remaining]
                out.extend(take)
                remaining -= len(take)
            return mkbytes(out)
        # pyio / nondet: read chunks of max(buffer_size, remaining) through raw.read()
        while remaining > 0:
            want = max(self.buffer_size, remaining)
            if pol == "nondet":
                want = 1 + _choice(want, "bufr.chunk")
            got = self._raw_readinto(want)
            if not got:
                break
            take = got[:remaining]
            self._buf = got[remaining:]
            out.extend(take)
            remaining -= len(take)
        return mkbytes(out)

    def read1(self, size=-1):
        """At most one raw read (CPython: buffered data first, otherwise one direct raw read of up to size)."""
        if self.closed:
            raise ValueError("read of closed file")
        if size is None or size < 0:
            size = self.buffer_size
        size = size.__index__()
        if size == 0:
            return mkbytes([])
        if self._buf:
            out = self._buf[:size]
            del self._buf[:size]
            return mkbytes(out)
        got = self._raw_readinto(size)
        return mkbytes(got or [])

    def readinto(self, b):
        data = self.read(len(b))
        it = _items_of(data)
        b[:len(it)] = it
        return len(it)

    def peek(self, size=0):
        raise Unsupported("BufferedReader.peek")

    def close(self):
        if self.raw is not None and not self.closed:
            self.raw.close()

    def tell(self):
        return self.raw.tell() - len(self._buf)

    def detach(self):
        raise Unsupported("BufferedReader.detach")


class TextIOWrapper(IOBase):
    """Model of _io.TextIOWrapper for the use canopen makes of it: strict codec, default newline handling on a
    POSIX host (no translation on write; universal newlines on read), optional line buffering, pending bytes
    handed to the underlying buffered stream on flush/close.  Chunk-size effects (8192 bytes) are outside: a
    transfer that would reach the chunk size raises Unsupported.  Validated against the real class by the
    native witness replay of every sampled path."""
    _CHUNK = 8192

    def __init__(self, buffer, encoding=None, errors=None, newline=None, line_buffering=False,
                 write_through=False):
        if encoding is None:
            raise Unsupported("TextIOWrapper with the locale encoding")
        if newline is not None:
            raise Unsupported("TextIOWrapper newline=%r" % (newline,))
        self.buffer = buffer
        self._encoding = encoding
        self._errors = errors or "strict"
        self._line_buffering = bool(line_buffering)
        self._pending = []
        self._chars = None      # decoded characters not yet handed out
        self._eof = False
        self._pendingcr = False
        buffer.seekable(), buffer.readable(), buffer.writable()

    encoding = property(lambda self: self._encoding)
    line_buffering = property(lambda self: self._line_buffering)

    @property
    def closed(self):
        return self.buffer.closed

    def readable(self):
        return self.buffer.readable()

    def writable(self):
        return self.buffer.writable()

    def _writeflush(self):
        if self._pending:
            items, self._pending = self._pending, []
            self.buffer.write(mkbytes(items))

    def write(self, s):
        if self.closed:
            raise ValueError("I/O operation on closed file.")
        from ..symstr import SymStr, _cps_of
        if not isinstance(s, (str, SymStr)):
            raise TypeError("write() argument must be str")
        cps = _cps_of(s)
        need = False
        if self._line_buffering:
            for c in cps:
                if (c == 10) | (c == 13):
                    need = True
                    break
        b = s.encode(self._encoding, self._errors)
        items = _items_of(b)
        if len(self._pending) + len(items) >= self._CHUNK:
            raise Unsupported("TextIOWrapper chunk boundary")
        self._pending.extend(items)
        if need:
            self._writeflush()
            self.buffer.flush()
        return len(cps)

    def flush(self):
        if self.closed:
            raise ValueError("I/O operation on closed file.")
        self._writeflush()
        self.buffer.flush()

    def close(self):
        if self.buffer.closed:
            return
        try:
            self.flush()
        finally:
            self.buffer.close()

    def _translate(self, cps, final):
        out = []
        for c in cps:
            if self._pendingcr:
                self._pendingcr = False
                if c == 10:
                    out.append(10)
                    continue
                out.append(10)
            if c == 13:
                self._pendingcr = True
            else:
                out.append(c)
        if final and self._pendingcr:
            self._pendingcr = False
            out.append(10)
        return out

    def read(self, size=-1):
        if self.closed:
            raise ValueError("I/O operation on closed file.")
        from ..symstr import decode, mkstr, _cps_of
        if size is None:
            size = -1
        if self._chars is None:
            self._chars = []
        if size < 0:
            data = self.buffer.read()
            cps = _cps_of(decode(_items_of(data), self._encoding, self._errors))
            out = self._chars + self._translate(cps, True)
            self._chars = []
            self._eof = True
            return mkstr(out)
        while len(self._chars) < size and not self._eof:
            data = self.buffer.read1(self._CHUNK)
            items = _items_of(data)
            if not items:
                self._eof = True
                self._chars.extend(self._translate([], True))
                break
            if self._encoding.replace("-", "_").lower() not in ("ascii", "us_ascii", "latin_1", "latin1"):
                raise Unsupported("incremental decoding of a multi-byte codec")
            self._chars.extend(self._translate(_cps_of(decode(items, self._encoding, self._errors)), False))
        out, self._chars = self._chars[:size], self._chars[size:]
        return mkstr(out)

    def readline(self, *a):
        raise Unsupported("TextIOWrapper.readline")

    def __iter__(self):
        raise Unsupported("TextIOWrapper iteration")

    def detach(self):
        raise Unsupported("TextIOWrapper.detach")


def open(*a, **k):
    return _rio.open(*a, **k)
