"""Model of the parts of `io` canopen uses: RawIOBase (documented raw-I/O contract) and the
buffered wrappers.  BufferedWriter/BufferedReader follow the CPython C implementation
(policy 'c'), the pure-Python reference `_pyio` (policy 'pyio'), or a nondeterministic
chunker covering both and any caller-driven flush (policy 'nondet')."""
import io as _rio

from ..core import Unsupported
from ..env import ENV
from ..symbytes import SymByteArray, SymBytes, SymMemView, mkbytes, _items_of

DEFAULT_BUFFER_SIZE = _rio.DEFAULT_BUFFER_SIZE
UnsupportedOperation = _rio.UnsupportedOperation
BytesIO = _rio.BytesIO
StringIO = _rio.StringIO
SEEK_SET, SEEK_CUR, SEEK_END = 0, 1, 2


class FixedBuf(SymByteArray):
    """A pre-allocated writable buffer (what readinto() receives): like a memoryview, slice
    assignment must not change its size."""
    __slots__ = ()

    def __setitem__(self, i, v):
        if isinstance(i, slice):
            it = _items_of(v)
            if it is None:
                it = list(v)
            if len(range(*i.indices(len(self._items)))) != len(it):
                raise ValueError("memoryview assignment: lvalue and rvalue have different structures")
        SymByteArray.__setitem__(self, i, v)

    def __delitem__(self, i):
        raise TypeError("cannot delete memory")

    def extend(self, o):
        raise TypeError("cannot resize a pre-allocated buffer")


class IOBase:
    _closed = False

    @property
    def closed(self):
        return self._closed

    def close(self):
        if not self._closed:
            try:
                self.flush()
            finally:
                self._closed = True

    def flush(self):
        if self._closed:
            raise ValueError("I/O operation on closed file.")

    def __enter__(self):
        if self.closed:
            raise ValueError("I/O operation on closed file.")
        return self

    def __del__(self):
        # like _io._IOBase: the finalizer closes an open stream, errors are swallowed
        try:
            closed = self.closed
        except Exception:
            return
        if not closed:
            try:
                self.close()
            except Exception:
                pass

    def __exit__(self, *a):
        self.close()

    def readable(self):
        return False

    def writable(self):
        return False

    def seekable(self):
        return False

    def isatty(self):
        return False

    def fileno(self):
        raise UnsupportedOperation("fileno")

    def tell(self):
        return self.seek(0, 1)

    def seek(self, *a):
        raise UnsupportedOperation("seek")

    def truncate(self, *a):
        raise UnsupportedOperation("truncate")

    def _checkClosed(self):
        if self.closed:
            raise ValueError("I/O operation on closed file.")


class RawIOBase(IOBase):
    def read(self, size=-1):
        if size is None or size < 0:
            return self.readall()
        b = FixedBuf([0] * size.__index__())
        n = self.readinto(b)
        if n is None:
            return None
        return mkbytes(b._items[:n])

    def readall(self):
        res = []
        while True:
            data = self.read(DEFAULT_BUFFER_SIZE)
            if not data:
                break
            res.extend(_items_of(data))
        return mkbytes(res)

    def readinto(self, b):
        raise UnsupportedOperation("readinto")

    def write(self, b):
        raise UnsupportedOperation("write")


class BufferedIOBase(IOBase):
    pass


def _choice(n, label):
    from .. import api
    return api.choice(n, label)


class BufferedWriter(BufferedIOBase):
    """Policy 'c' follows Modules/_io/bufferedio.c statement by statement for a write-only, non-seekable raw
    stream: one fixed buffer, raw.write() receives a memoryview *into that buffer* (or into the caller's
    object for the direct writes of oversized data), a raw write that returns None is a would-block condition
    (BlockingIOError, with the shift-and-buffer recovery inside write()).  Policies 'pyio'/'nondet' hand
    copies to the raw stream."""

    def __init__(self, raw, buffer_size=DEFAULT_BUFFER_SIZE):
        if not raw.writable():
            raise OSError('"raw" argument must be writable.')
        if buffer_size <= 0:
            raise ValueError("invalid buffer size")
        self.raw = raw
        self.buffer_size = buffer_size
        self._buf = []
        # C state
        self._cbuf = [0] * buffer_size
        self._pos = 0
        self._write_pos = 0
        self._write_end = -1

    def writable(self):
        return True

    @property
    def closed(self):
        return self.raw.closed

    # ---- C implementation -------------------------------------------------------------------
    def _c_raw_write(self, base, start, length):
        res = self.raw.write(SymMemView(base, start, start + length))
        if res is None:
            return -2
        n = res.__index__()
        if n < 0 or n > length:
            raise OSError("raw write() returned invalid length %d (should have been between 0 "
                          "and %d)" % (n, length))
        if n == 0:
            raise Unsupported("raw write() made no progress")     # CPython would spin
        return n

    def _c_flush(self):
        if self._write_end == -1 or self._write_pos == self._write_end:
            return
        while self._write_pos < self._write_end:
            n = self._c_raw_write(self._cbuf, self._write_pos, self._write_end - self._write_pos)
            if n == -2:
                raise BlockingIOError(11, "write could not complete without blocking", 0)
            self._write_pos += n
        self._write_pos = 0
        self._write_end = -1

    def _c_write(self, b, items):
        L = len(items)
        bs = self.buffer_size
        cb = self._cbuf
        if self._write_end == -1:
            self._pos = 0
        avail = bs - self._pos
        if L <= avail:
            cb[self._pos:self._pos + L] = items
            if self._write_end == -1 or self._write_pos > self._pos:
                self._write_pos = self._pos
            self._pos += L
            if self._pos > self._write_end:
                self._write_end = self._pos
            return L
        try:
            self._c_flush()
        except BlockingIOError:
            # make some place by shifting the buffer
            k = self._write_end - self._write_pos
            cb[0:k] = cb[self._write_pos:self._write_end]
            self._write_end -= self._write_pos
            self._pos -= self._write_pos
            self._write_pos = 0
            avail = bs - self._write_end
            if L <= avail:
                cb[self._write_end:self._write_end + L] = items
                self._write_end += L
                self._pos += L
                return L
            cb[self._write_end:self._write_end + avail] = items[:avail]
            self._write_end += avail
            self._pos += avail
            raise BlockingIOError(11, "write could not complete without blocking", avail)
        # the buffer is empty now; oversized data goes to the raw stream directly from the caller's object
        base = b._items if isinstance(b, SymByteArray) else list(items)
        remaining, written = L, 0
        while remaining > bs:
            n = self._c_raw_write(base, written, L - written)
            if n == -2:
                cb[0:bs] = items[written:written + bs]
                self._pos = bs
                self._write_pos = 0
                self._write_end = bs
                written += bs
                raise BlockingIOError(11, "write could not complete without blocking", written)
            written += n
            remaining -= n
        if remaining > 0:
            cb[0:remaining] = items[written:]
        self._write_pos = 0
        self._write_end = remaining
        self._pos = remaining
        return L

    # ---- copies (pyio / nondet) ---------------------------------------------------------------
    def _raw_write(self, items):
        n = self.raw.write(mkbytes(items))
        if n is None:
            raise BlockingIOError(11, "write could not complete without blocking", 0)
        n = n.__index__()
        if n < 0 or n > len(items):
            raise OSError("raw write() returned invalid length %d (should have been between 0 "
                          "and %d)" % (n, len(items)))
        if n == 0:
            # CPython would call raw.write() again forever; outside the claim
            raise Unsupported("raw write() made no progress")
        return n

    def _flush_buf(self, keep_if_fits=False):
        while self._buf:
            n = self._raw_write(self._buf)
            del self._buf[:n]

    def write(self, b):
        if self.closed:
            raise ValueError("write to closed file")
        items = _items_of(b)
        if items is None:
            raise TypeError("a bytes-like object is required")
        pol = ENV.io_policy
        if pol == "c":
            return self._c_write(b, items)
        if pol == "pyio":
            if len(self._buf) > self.buffer_size:
                self._flush_buf()
            self._buf.extend(items)
            if len(self._buf) > self.buffer_size:
                self._flush_buf()
            return len(items)
        # nondeterministic chunker
        if self._buf and _choice(2, "bufw.flush_before"):
            self._flush_buf()
        self._buf.extend(items)
        while self._buf and (len(self._buf) > self.buffer_size or _choice(2, "bufw.flush_after")):
            n = self._raw_write(self._buf)
            del self._buf[:n]
        return len(items)

    def flush(self):
        if self.closed:
            raise ValueError("flush of closed file")
        if ENV.io_policy == "c":
            self._c_flush()
        else:
            self._flush_buf()

    def close(self):
        if self.raw is None or self.closed:
            return
        # C: flush(), then raw.close() in any case; an error of the flush is raised afterwards (as the context
        # of an error of raw.close() if that fails too)
        err = None
        try:
            self.flush()
        except BaseException as e:      # noqa: path-steering exceptions are re-raised below unchanged
            err = e
        if err is not None and not isinstance(err, Exception):
            raise err
        try:
            self.raw.close()
        except Exception as e2:
            if err is not None and e2.__context__ is None:
                e2.__context__ = err
            raise
        if err is not None:
            raise err

    def tell(self):
        if ENV.io_policy == "c":
            pending = 0 if self._write_end == -1 else self._write_end - self._write_pos
            return self.raw.tell() + pending
        return self.raw.tell() + len(self._buf)

    def detach(self):
        raise Unsupported("BufferedWriter.detach")


class BufferedReader(BufferedIOBase):
    def __init__(self, raw, buffer_size=DEFAULT_BUFFER_SIZE):
        if not raw.readable():
            raise OSError('"raw" argument must be readable.')
        if buffer_size <= 0:
            raise ValueError("invalid buffer size")
        self.raw = raw
        self.buffer_size = buffer_size
        self._buf = []

    def readable(self):
        return True

    @property
    def closed(self):
        return self.raw.closed

    def _raw_readinto(self, size):
        b = FixedBuf([0] * size)
        n = self.raw.readinto(b)
        if n is None:
            return None
        n = n.__index__()
        if n < 0 or n > size:
            raise OSError("raw readinto() returned invalid length %d (should have been between "
                          "0 and %d)" % (n, size))
        return b._items[:n]

    # ---- C implementation (Modules/_io/bufferedio.c), read-only non-seekable raw stream ----------
    # fixed buffer _cbuf, _pos (next byte to hand out), _read_end (-1: no valid read buffer).  Refills go to
    # _cbuf[_read_end:buffer_size]: bytes already handed out still occupy their place until the buffer is reset.
    def _c_state(self):
        if not hasattr(self, "_cbuf"):
            self._cbuf = [0] * self.buffer_size
            self._pos = 0
            self._read_end = -1

    def _c_readahead(self):
        return self._read_end - self._pos if self._read_end != -1 else 0

    def _c_raw_read(self, length):
        """returns the list of items read (possibly empty = EOF) or None (would block)"""
        return self._raw_readinto(length)

    def _c_fill(self):
        start = self._read_end if self._read_end != -1 else 0
        got = self._c_raw_read(self.buffer_size - start)
        if not got:
            return got
        self._cbuf[start:start + len(got)] = got
        self._read_end = start + len(got)
        return got

    def _c_read(self, n):
        self._c_state()
        cur = self._c_readahead()
        if n <= cur:
            out = self._cbuf[self._pos:self._pos + n]
            self._pos += n
            return mkbytes(out)
        out = []
        remaining = n
        if cur > 0:
            out.extend(self._cbuf[self._pos:self._pos + cur])
            remaining -= cur
            self._pos += cur
        self._read_end = -1
        bs = self.buffer_size
        while remaining > 0:
            r = bs * (remaining // bs)
            if r == 0:
                break
            got = self._c_raw_read(r)
            if not got:
                if got is not None or out:
                    return mkbytes(out)
                return None
            out.extend(got)
            remaining -= len(got)
        self._pos = 0
        self._read_end = 0
        while remaining > 0 and self._read_end < bs:
            got = self._c_fill()
            if not got:
                if got is not None or out:
                    return mkbytes(out)
                return None
            r = len(got)
            take = r if remaining > r else remaining
            out.extend(self._cbuf[self._pos:self._pos + take])
            self._pos += take
            remaining -= take
        return mkbytes(out)

    def _c_read_all(self):
        self._c_state()
        cur = self._c_readahead()
        out = self._cbuf[self._pos:self._pos + cur] if cur else []
        self._pos += cur
        self._read_end = -1
        data = self.raw.readall()
        if data is None:
            return mkbytes(out) if cur else None
        return mkbytes(out + _items_of(data))

    def _c_read1(self, n):
        self._c_state()
        have = self._c_readahead()
        if have > 0:
            n = min(have, n)
            out = self._cbuf[self._pos:self._pos + n]
            self._pos += n
            return mkbytes(out)
        self._read_end = -1
        got = self._c_raw_read(n)
        return mkbytes(got or [])

    def read(self, size=-1):
        if self.closed:
            raise ValueError("read of closed file")
        pol = ENV.io_policy
        if pol == "c":
            if size is None or size < 0:
                return self._c_read_all()
            return self._c_read(size.__index__())
        if size is None or size < 0:
            out = self._buf
            self._buf = []
            data = self.raw.readall()
            if data is not None:
                out = out + _items_of(data)
            return mkbytes(out)
        size = size.__index__()
        out = self._buf[:size]
        del self._buf[:size]
        remaining = size - len(out)
        # pyio / nondet: read chunks of max(buffer_size, remaining) through raw.read()
        while remaining > 0:
            want = max(self.buffer_size, remaining)
            if pol == "nondet":
                want = 1 + _choice(want, "bufr.chunk")
            got = self._raw_readinto(want)
            if not got:
                break
            take = got[:remaining]
            self._buf = got[remaining:]
            out.extend(take)
            remaining -= len(take)
        return mkbytes(out)

    def read1(self, size=-1):
        """At most one raw read (CPython: buffered data first, otherwise one direct raw read of up to size)."""
        if self.closed:
            raise ValueError("read of closed file")
        if size is None or size < 0:
            size = self.buffer_size
        size = size.__index__()
        if size == 0:
            return mkbytes([])
        if ENV.io_policy == "c":
            return self._c_read1(size)
        if self._buf:
            out = self._buf[:size]
            del self._buf[:size]
            return mkbytes(out)
        got = self._raw_readinto(size)
        return mkbytes(got or [])

    def readinto(self, b):
        data = self.read(len(b))
        it = _items_of(data)
        b[:len(it)] = it
        return len(it)

    def peek(self, size=0):
        raise Unsupported("BufferedReader.peek")

    def close(self):
        if self.raw is not None and not self.closed:
            self.raw.close()

    def tell(self):
        return self.raw.tell() - len(self._buf)

    def detach(self):
        raise Unsupported("BufferedReader.detach")


class TextIOWrapper(IOBase):
    """Model of _io.TextIOWrapper for the use canopen makes of it: strict codec, default newline handling on a
    POSIX host (no translation on write; universal newlines on read), optional line buffering, pending bytes
    handed to the underlying buffered stream on flush/close.  Chunk-size effects (8192 bytes) are outside: a
    transfer that would reach the chunk size raises Unsupported.  Validated against the real class by the
    native witness replay of every sampled path."""
    _CHUNK = 8192

    def __init__(self, buffer, encoding=None, errors=None, newline=None, line_buffering=False,
                 write_through=False):
        if encoding is None:
            raise Unsupported("TextIOWrapper with the locale encoding")
        if newline is not None:
            raise Unsupported("TextIOWrapper newline=%r" % (newline,))
        self.buffer = buffer
        self._encoding = encoding
        self._errors = errors or "strict"
        self._line_buffering = bool(line_buffering)
        self._pending = []
        self._chars = None      # decoded characters not yet handed out
        self._eof = False
        self._pendingcr = False
        buffer.seekable(), buffer.readable(), buffer.writable()

    encoding = property(lambda self: self._encoding)
    line_buffering = property(lambda self: self._line_buffering)

    @property
    def closed(self):
        return self.buffer.closed

    def readable(self):
        return self.buffer.readable()

    def writable(self):
        return self.buffer.writable()

    def _writeflush(self):
        if self._pending:
            items, self._pending = self._pending, []
            self.buffer.write(mkbytes(items))

    def write(self, s):
        if self.closed:
            raise ValueError("I/O operation on closed file.")
        from ..symstr import SymStr, _cps_of
        if not isinstance(s, (str, SymStr)):
            raise TypeError("write() argument must be str")
        cps = _cps_of(s)
        need = False
        if self._line_buffering:
            for c in cps:
                if (c == 10) | (c == 13):
                    need = True
                    break
        b = s.encode(self._encoding, self._errors)
        items = _items_of(b)
        if len(self._pending) + len(items) >= self._CHUNK:
            raise Unsupported("TextIOWrapper chunk boundary")
        self._pending.extend(items)
        if need:
            self._writeflush()
            self.buffer.flush()
        return len(cps)

    def flush(self):
        if self.closed:
            raise ValueError("I/O operation on closed file.")
        self._writeflush()
        self.buffer.flush()

    def close(self):
        if self.buffer.closed:
            return
        try:
            self.flush()
        finally:
            self.buffer.close()

    def _translate(self, cps, final):
        out = []
        for c in cps:
            if self._pendingcr:
                self._pendingcr = False
                if c == 10:
                    out.append(10)
                    continue
                out.append(10)
            if c == 13:
                self._pendingcr = True
            else:
                out.append(c)
        if final and self._pendingcr:
            self._pendingcr = False
            out.append(10)
        return out

    def read(self, size=-1):
        if self.closed:
            raise ValueError("I/O operation on closed file.")
        from ..symstr import decode, mkstr, _cps_of
        if size is None:
            size = -1
        if self._chars is None:
            self._chars = []
        if size < 0:
            data = self.buffer.read()
            cps = _cps_of(decode(_items_of(data), self._encoding, self._errors))
            out = self._chars + self._translate(cps, True)
            self._chars = []
            self._eof = True
            return mkstr(out)
        while len(self._chars) < size and not self._eof:
            if not self._more():
                break
        out, self._chars = self._chars[:size], self._chars[size:]
        return mkstr(out)

    def _more(self):
        """decode one more chunk into _chars; False at end of file"""
        from ..symstr import decode, _cps_of
        if self._eof:
            return False
        data = self.buffer.read1(self._CHUNK)
        items = _items_of(data)
        if not items:
            self._eof = True
            self._chars.extend(self._translate([], True))
            return False
        if self._encoding.replace("-", "_").lower() not in ("ascii", "us_ascii", "latin_1", "latin1"):
            raise Unsupported("incremental decoding of a multi-byte codec")
        self._chars.extend(self._translate(_cps_of(decode(items, self._encoding, self._errors)), False))
        return True

    def readline(self, size=-1):
        if self.closed:
            raise ValueError("I/O operation on closed file.")
        from ..symstr import mkstr
        if size is not None and size >= 0:
            raise Unsupported("TextIOWrapper.readline(size)")
        if self._chars is None:
            self._chars = []
        scanned = 0
        while True:
            chars = self._chars
            for i in range(scanned, len(chars)):
                if chars[i] == 10:
                    line, self._chars = chars[:i + 1], chars[i + 1:]
                    return mkstr(line)
            scanned = len(chars)
            if not self._more():
                line, self._chars = self._chars, []
                return mkstr(line)

    def __iter__(self):
        return self

    def __next__(self):
        line = self.readline()
        if not line:
            raise StopIteration
        return line

    def readlines(self, hint=-1):
        return list(self)

    def detach(self):
        raise Unsupported("TextIOWrapper.detach")


def open(*a, **k):
    return _rio.open(*a, **k)
