"""Models of queue, time, threading, logging, binascii for loaded canopen modules."""
import binascii as _rbinascii
import queue as _rqueue
import threading as _rthreading
import types
import z3

from ..core import SymInt, SymBool, W, Unsupported
from ..env import ENV
from ..symbytes import _items_of, mkbytes


# ---- queue ---------------------------------------------------------------------------------
class Queue:
    def __init__(self, maxsize=0):
        self._q = []
        self._cond = None

    def _sc(self):
        s = ENV.sched
        if s is None:
            return None
        if self._cond is None or self._cond.s is not s:
            from ..sched import SCondition
            self._cond = SCondition(s)
        return self._cond

    def put(self, item, block=True, timeout=None):
        c = self._sc()
        if c is not None:
            with c:
                self._q.append(item)
                c.notify_all()
            return
        self._q.append(item)

    put_nowait = put

    def get(self, block=True, timeout=None):
        c = self._sc()
        if c is not None:
            with c:
                if not self._q and block:
                    c.wait(timeout)          # woken by a put() of another thread, or timed out
                if not self._q:
                    raise _rqueue.Empty()
                return self._q.pop(0)
        if not self._q and block and (timeout is None or timeout > 0):
            ENV.run_hook("queue", self, timeout)
        if not self._q:
            if block:
                ENV.advance(timeout)
            raise _rqueue.Empty()
        return self._q.pop(0)

    def get_nowait(self):
        return self.get(block=False)

    def empty(self):
        return not self._q

    def qsize(self):
        return len(self._q)


queue_model = types.SimpleNamespace(Queue=Queue, Empty=_rqueue.Empty, Full=_rqueue.Full,
                                    SimpleQueue=Queue, __name__="queue")


# ---- time ----------------------------------------------------------------------------------
def _time():
    return ENV.read_clock()


def _sleep(dt):
    ENV.sleeps.append(dt)
    ENV.advance(dt)


import time as _rtime

time_model = types.SimpleNamespace(time=_time, monotonic=_time, perf_counter=_time, sleep=_sleep,
                                   strftime=_rtime.strftime, gmtime=_rtime.gmtime,
                                   localtime=_rtime.localtime, __name__="time")


# ---- threading -----------------------------------------------------------------------------
class Condition:
    """Without a scheduler: a waiter observes either a delivery made by the delivery hook during the wait or
    a time-out.  With a scheduler (symx.sched) installed: real lock / wait / notify semantics with every
    schedule at synchronisation-point granularity explored."""

    def __init__(self, lock=None):
        self.notified = 0
        self._sc = None

    def _impl(self):
        s = ENV.sched
        if s is None:
            return None
        if self._sc is None or self._sc.s is not s:
            from ..sched import SCondition
            self._sc = SCondition(s)
        return self._sc

    def __enter__(self):
        i = self._impl()
        if i is not None:
            i.__enter__()
        return self

    def __exit__(self, *a):
        i = self._impl()
        if i is not None:
            i.__exit__(*a)
        return False

    def acquire(self, *a, **k):
        i = self._impl()
        if i is not None:
            i.lock.acquire()
        return True

    def release(self):
        i = self._impl()
        if i is not None:
            i.lock.release()

    def wait(self, timeout=None):
        i = self._impl()
        if i is not None:
            return i.wait(timeout)
        before = self.notified
        if timeout is None or timeout > 0:          # a non-positive time-out returns at once: nobody else gets to run
            ENV.run_hook("condition", self, timeout)
        if self.notified != before:
            return True
        ENV.advance(timeout)
        return False

    def wait_for(self, predicate, timeout=None):
        # threading.Condition.wait_for: wait again and again until the predicate holds or the time is used up
        endtime = None
        waittime = timeout
        result = predicate()
        guard = 0
        while not result:
            guard += 1
            if guard > 1000:
                raise Unsupported("Condition.wait_for does not terminate")
            if waittime is not None:
                if endtime is None:
                    endtime = ENV.read_clock() + waittime
                else:
                    waittime = endtime - ENV.read_clock()
                    if waittime <= 0:
                        break
            self.wait(waittime)
            result = predicate()
        return result

    def notify(self, n=1):
        self.notified += 1
        i = self._impl()
        if i is not None:
            i.notify(n)

    def notify_all(self):
        self.notified += 1
        i = self._impl()
        if i is not None:
            i.notify_all()


class Lock:
    """threading.Lock.  Under the thread scheduler: a scheduled lock.  Without one (a single thread): the lock still
    has a state - acquiring a held lock fails after the time-out (or is a deadlock when it would block for ever),
    releasing a free lock raises RuntimeError - so that a lock left held by an error path is noticed."""
    _reentrant = False

    def __init__(self):
        self._sl = None
        self._held = 0

    def _impl(self):
        s = ENV.sched
        if s is None:
            return None
        if self._sl is None or self._sl.s is not s:
            from ..sched import SLock
            self._sl = SLock(s)
        return self._sl

    def __enter__(self):
        self.acquire()
        return self

    def __exit__(self, *a):
        self.release()
        return False

    def acquire(self, blocking=True, timeout=-1):
        i = self._impl()
        if i is not None:
            i.acquire()
            return True
        if self._held and not self._reentrant:
            if not blocking:
                return False
            if timeout is not None and timeout >= 0:
                ENV.advance(timeout)
                return False
            raise RuntimeError("deadlock: the only thread acquires a lock it already holds")
        self._held += 1
        return True

    def release(self):
        i = self._impl()
        if i is not None:
            i.release()
            return
        if not self._held:
            raise RuntimeError("release unlocked lock")
        self._held -= 1

    def locked(self):
        i = self._impl()
        if i is not None:
            return bool(i.owner is not None)
        return bool(self._held)


class RLock(Lock):
    _reentrant = True


threading_model = types.SimpleNamespace(Condition=Condition, Lock=Lock, RLock=RLock,
                                        Thread=_rthreading.Thread, Event=_rthreading.Event,
                                        current_thread=_rthreading.current_thread,
                                        __name__="threading")


# ---- logging -------------------------------------------------------------------------------
class _NullLogger:
    name = "null"
    level = 0
    handlers = []
    disabled = False
    propagate = False

    def _noop(self, *a, **k):
        pass

    debug = info = warning = warn = error = exception = critical = log = fatal = _noop
    addHandler = removeHandler = setLevel = _noop

    def isEnabledFor(self, level):
        return False

    def getEffectiveLevel(self):
        return 100

    def getChild(self, s):
        return self


_NULL = _NullLogger()
import logging as _rlogging

logging_model = types.SimpleNamespace(
    getLogger=lambda name=None: _NULL, Logger=_NullLogger,
    DEBUG=10, INFO=20, WARNING=30, WARN=30, ERROR=40, CRITICAL=50, NOTSET=0,
    debug=_NULL._noop, info=_NULL._noop, warning=_NULL._noop, warn=_NULL._noop,
    error=_NULL._noop, exception=_NULL._noop, critical=_NULL._noop, log=_NULL._noop,
    basicConfig=_NULL._noop, NullHandler=_rlogging.NullHandler, Handler=_rlogging.Handler,
    __name__="logging")


# ---- binascii ------------------------------------------------------------------------------
def _crc_table_entry(x):
    c = x << 8
    for _ in range(8):
        c = ((c << 1) ^ 0x1021) & 0xFFFF if c & 0x8000 else (c << 1) & 0xFFFF
    return c


_T_POW = [_crc_table_entry(1 << i) for i in range(8)]   # CRC table is GF(2)-linear


def crc_hqx(data, value):
    items = _items_of(data)
    if items is None:
        raise TypeError("a bytes-like object is required")
    if all(type(b) is int for b in items) and isinstance(value, int):
        return _rbinascii.crc_hqx(bytes(items), value)
    if isinstance(value, SymInt):
        crc = z3.Extract(15, 0, value.t)
    else:
        crc = z3.BitVecVal(value & 0xFFFF, 16)
    for b in items:
        b8 = z3.BitVecVal(b, 8) if type(b) is int else z3.Extract(7, 0, b.t)
        x = z3.Extract(15, 8, crc) ^ b8
        acc = z3.Concat(z3.Extract(7, 0, crc), z3.BitVecVal(0, 8))
        for i in range(8):
            acc = acc ^ z3.If(z3.Extract(i, i, x) == 1, z3.BitVecVal(_T_POW[i], 16),
                              z3.BitVecVal(0, 16))
        crc = acc
    return SymInt(z3.ZeroExt(W - 16, crc), 0, 0xFFFF)


def hexlify(data, *a):
    items = _items_of(data)
    if items is not None and all(type(b) is int for b in items):
        return _rbinascii.hexlify(bytes(items), *a)
    return b"<symbolic>"


binascii_model = types.SimpleNamespace(crc_hqx=crc_hqx, hexlify=hexlify,
                                       unhexlify=_rbinascii.unhexlify, b2a_hex=hexlify,
                                       a2b_hex=_rbinascii.a2b_hex, crc32=_rbinascii.crc32,
                                       Error=_rbinascii.Error, __name__="binascii")
