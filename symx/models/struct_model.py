"""Pure-Python model of the `struct` module over symbolic values.

Supported: byte-order prefixes < > = ! (and no prefix / @ when every code is one byte wide or
's'/'x'), codes x c b B ? h H i I l L q Q f d and Ns.  Anything else => Unsupported.
Semantics follow CPython: range check => struct.error, wrong buffer length => struct.error,
float overflow on 'f' => OverflowError.  Base-class methods deliberately use the *format's*
size (like the C implementation), not an overriding `size` property of a subclass.
"""
import struct as _real
import z3

from ..core import SymInt, SymBool, Unsupported, W, is_sym
from ..symbytes import SymBytes, SymByteArray, mkbytes, _items_of, _check_byte, is_byteslike
from .. import symfloat

error = _real.error

_INT = {  # code -> (size, signed)
    "b": (1, True), "B": (1, False), "h": (2, True), "H": (2, False),
    "i": (4, True), "I": (4, False), "l": (4, True), "L": (4, False),
    "q": (8, True), "Q": (8, False),
}


def _parse(fmt):
    if isinstance(fmt, bytes):
        fmt = fmt.decode()
    order = "@"
    body = fmt
    if fmt and fmt[0] in "<>=!@":
        order = fmt[0]
        body = fmt[1:]
    items = []
    num = ""
    for ch in body:
        if ch.isspace():
            continue
        if ch.isdigit():
            num += ch
            continue
        cnt = int(num) if num else 1
        num = ""
        if ch in ("s", "p"):
            if ch == "p":
                raise Unsupported("struct 'p'")
            items.append(("s", cnt))
        elif ch == "x":
            items.extend([("x", 1)] * cnt)
        elif ch in _INT or ch in "?cfd":
            items.extend([(ch, 1)] * cnt)
        else:
            raise Unsupported("struct format code %r" % ch)
    if num:
        raise error("repeat count given without format specifier")
    if order == "@":
        for code, cnt in items:
            if code not in "bB?cxs":
                raise Unsupported("native-alignment struct format %r" % fmt)
    big = order in ">!"
    return order, items, big


def _size_of(code, cnt):
    if code == "s":
        return cnt
    if code in ("x", "c", "?"):
        return 1
    if code == "f":
        return 4
    if code == "d":
        return 8
    return _INT[code][0]


def _byte_of(v, i):
    """i-th little-endian byte of SymInt v."""
    if v.lo >= 0 and v.hi < (1 << (8 * i)):
        return 0
    return SymInt(z3.ZeroExt(W - 8, z3.Extract(8 * i + 7, 8 * i, v.t)), 0, 255)


def _int_from_items(items, signed, big):
    n = len(items)
    if all(type(b) is int for b in items):
        return int.from_bytes(bytes(items), "big" if big else "little", signed=signed)
    seq = items if big else items[::-1]   # most significant first
    parts = []
    for b in seq:
        if type(b) is int:
            parts.append(z3.BitVecVal(b, 8))
        else:
            parts.append(z3.Extract(7, 0, b.t))
    t = z3.Concat(*parts) if len(parts) > 1 else parts[0]
    bits = 8 * n
    if signed:
        return SymInt(z3.SignExt(W - bits, t), -(1 << (bits - 1)), (1 << (bits - 1)) - 1)
    return SymInt(z3.ZeroExt(W - bits, t), 0, (1 << bits) - 1)


def bits_from_items(items, big):
    """n*8-bit z3 term of the byte items (for IEEE decoding)."""
    seq = items if big else items[::-1]
    parts = [z3.BitVecVal(b, 8) if type(b) is int else z3.Extract(7, 0, b.t) for b in seq]
    return z3.Concat(*parts) if len(parts) > 1 else parts[0]


class Struct:
    def __init__(self, format):
        if isinstance(format, bytes):
            format = format.decode()
        self._format = format
        self._order, self._items, self._big = _parse(format)
        self._fmt_size = sum(_size_of(c, n) for c, n in self._items)
        self._nargs = sum(1 for c, n in self._items if c != "x")

    @property
    def format(self):
        return self._format

    @property
    def size(self):
        return self._fmt_size

    # ---- packing ---------------------------------------------------------------------
    def _pack_items(self, values):
        if len(values) != self._nargs:
            raise error("pack expected %d items for packing (got %d)" % (self._nargs, len(values)))
        out = []
        vi = 0
        for code, cnt in self._items:
            if code == "x":
                out.append(0)
                continue
            v = values[vi]
            vi += 1
            if code == "s":
                it = _items_of(v)
                if it is None:
                    raise error("argument for 's' must be a bytes object")
                it = it[:cnt]
                out.extend(it + [0] * (cnt - len(it)))
            elif code == "c":
                it = _items_of(v)
                if it is None or len(it) != 1:
                    raise error("char format requires a bytes object of length 1")
                out.extend(it)
            elif code == "?":
                if isinstance(v, SymBool):
                    out.append(v._as_int())
                elif isinstance(v, SymInt):
                    out.append((v != 0)._as_int() if not isinstance(v != 0, bool) else int(v != 0))
                elif isinstance(v, symfloat.SymFloat):
                    out.append((v != 0)._as_int())
                else:
                    out.append(1 if v else 0)
            elif code in "fd":
                out.extend(symfloat.pack_float(v, code, self._big, error))
            else:
                size, signed = _INT[code]
                out.extend(self._pack_int(v, size, signed, code))
        return out

    def _pack_int(self, v, size, signed, code):
        bits = 8 * size
        lo, hi = (-(1 << (bits - 1)), (1 << (bits - 1)) - 1) if signed else (0, (1 << bits) - 1)
        if isinstance(v, SymBool):
            v = v._as_int()
        if isinstance(v, SymInt):
            ok = (v >= lo) & (v <= hi)
            if not ok:
                raise error("'%s' format requires %d <= number <= %d" % (code, lo, hi))
            vv = SymInt(v.t, max(v.lo, lo), min(v.hi, hi))
            items = [_byte_of(vv, i) for i in range(size)]
            return items[::-1] if self._big else items
        if isinstance(v, (float, symfloat.SymFloat)) or not isinstance(v, int):
            if hasattr(v, "__index__") and not isinstance(v, (float, symfloat.SymFloat)):
                v = v.__index__()
            else:
                raise error("required argument is not an integer")
        if not lo <= v <= hi:
            raise error("'%s' format requires %d <= number <= %d" % (code, lo, hi))
        return list(int(v).to_bytes(size, "big" if self._big else "little", signed=signed))

    def pack(self, *values):
        return mkbytes(self._pack_items(values))

    def pack_into(self, buffer, offset, *values):
        items = self._pack_items(values)
        offset = offset.__index__()
        n = len(buffer)
        if offset < 0:
            if offset + n < 0:
                raise error("offset %d out of range for %d-byte buffer" % (offset, n))
            offset += n
        if n - offset < self._fmt_size:
            raise error("pack_into requires a buffer of at least %d bytes for packing %d bytes "
                        "at offset %d (actual buffer size is %d)"
                        % (offset + self._fmt_size, self._fmt_size, offset, n))
        if isinstance(buffer, SymByteArray):
            buffer._items[offset:offset + self._fmt_size] = items
        elif isinstance(buffer, bytearray):
            buffer[offset:offset + self._fmt_size] = bytes(b.__index__() for b in items)
        else:
            raise TypeError("argument must be read-write bytes-like object")

    # ---- unpacking ---------------------------------------------------------------------
    def _unpack_items(self, items):
        out = []
        p = 0
        for code, cnt in self._items:
            sz = _size_of(code, cnt)
            chunk = items[p:p + sz]
            p += sz
            if code == "x":
                continue
            if code == "s":
                out.append(mkbytes(chunk))
            elif code == "c":
                out.append(mkbytes(chunk))
            elif code == "?":
                b = chunk[0]
                out.append(bool(b) if type(b) is int else (b != 0))
            elif code in "fd":
                out.append(symfloat.unpack_float(chunk, code, self._big))
            else:
                size, signed = _INT[code]
                out.append(_int_from_items(chunk, signed, self._big))
        return tuple(out)

    def unpack(self, buffer):
        items = _items_of(buffer)
        if items is None:
            raise TypeError("a bytes-like object is required, not '%s'" % type(buffer).__name__)
        if len(items) != self._fmt_size:
            raise error("unpack requires a buffer of %d bytes" % self._fmt_size)
        return self._unpack_items(items)

    def unpack_from(self, buffer, offset=0):
        items = _items_of(buffer)
        if items is None:
            raise TypeError("a bytes-like object is required, not '%s'" % type(buffer).__name__)
        offset = offset.__index__()
        n = len(items)
        if offset < 0:
            if offset + n < 0:
                raise error("offset %d out of range for %d-byte buffer" % (offset, n))
            offset += n
        if n - offset < self._fmt_size:
            raise error("unpack_from requires a buffer of at least %d bytes for unpacking %d "
                        "bytes at offset %d (actual buffer size is %d)"
                        % (offset + self._fmt_size, self._fmt_size, offset, n))
        return self._unpack_items(items[offset:offset + self._fmt_size])

    def iter_unpack(self, buffer):
        raise Unsupported("struct.iter_unpack")


_cache = {}


def _get(fmt):
    s = _cache.get(fmt)
    if s is None:
        s = _cache[fmt] = Struct(fmt)
    return s


def pack(fmt, *values):
    return _get(fmt).pack(*values)


def unpack(fmt, buffer):
    return _get(fmt).unpack(buffer)


def pack_into(fmt, buffer, offset, *values):
    return _get(fmt).pack_into(buffer, offset, *values)


def unpack_from(fmt, buffer, offset=0):
    return _get(fmt).unpack_from(buffer, offset)


def calcsize(fmt):
    return _get(fmt)._fmt_size
