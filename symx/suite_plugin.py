"""pytest plugin: run the repository's own test-suite against the package as loaded by the
symx loader (AST rewrite, substituted builtins, struct/bytes/dict models; real queue, time, io,
threading, can).  Validates the translator with the repo's tests (DESIGN 4.4)."""
import sys
sys.path.insert(0, "/verif") if "/verif" not in sys.path else None
from symx import loader

loader.activate("suite")
