"""SymFloat: IEEE-754 binary64 values as z3 FP terms (round-to-nearest-even like CPython).

A SymFloat that arose from `int / power-of-two-float` also carries the exact rational
(num SymInt, den int) so that ceil/floor/int on it are exact integer operations."""
import math
import struct as _real
import z3

from .core import SymInt, SymBool, Unsupported, W, BV, S, ctx, format_token

F64 = z3.Float64()
F32 = z3.Float32()
RNE = z3.RNE()
RTZ = z3.RTZ()
RTP = z3.RTP()
RTN = z3.RTN()


class SymFloat:
    __slots__ = ("t", "ratio", "quot")

    def __init__(self, t, ratio=None, quot=None):
        self.t = t
        self.ratio = ratio      # (num SymInt, den int): exact rational, den a power of two
        self.quot = quot        # (num SymInt, den float): value is fl(num / den), |num| < 2**52

    # conversions
    def __float__(self):
        raise Unsupported("float() of symbolic float crossing into C")

    def __bool__(self):
        return bool(self != 0.0)

    def __repr__(self):
        return "<SymFloat>"

    __str__ = __repr__

    def __format__(self, spec):
        if spec and spec[-1] in "bcdoxX":
            raise ValueError("Unknown format code '%s' for object of type 'float'" % spec[-1])
        return "<SymFloat>"

    def __hash__(self):
        raise Unsupported("hash of symbolic float")

    def _guard_int(self):
        if bool(SymBool(z3.fpIsNaN(self.t))):
            raise ValueError("cannot convert float NaN to integer")
        if bool(SymBool(z3.fpIsInf(self.t))):
            raise OverflowError("cannot convert float infinity to integer")
        lim = z3.FPVal(2.0 ** 62, F64)
        if bool(SymBool(z3.Or(z3.fpGEQ(self.t, lim), z3.fpLEQ(self.t, -lim)))):
            raise Unsupported("float beyond 2**62 converted to int")

    def _to_int(self, rm):
        self._guard_int()
        return _int_of_integral(z3.fpRoundToIntegral(rm, self.t))

    def __int__(self):
        raise Unsupported("int() must go through the substituted builtin")

    def trunc(self):
        if self.ratio is not None:
            num, den = self.ratio
            q = abs(num) // den
            neg = num < 0
            if isinstance(neg, bool):
                return -q if neg else q
            return _ite_int(neg, -q, q)
        return self._to_int(RTZ)

    def __round__(self, nd=None):
        if nd is not None:
            raise Unsupported("round(x, ndigits) on symbolic float")
        self._guard_int()
        r = z3.fpRoundToIntegral(RNE, self.t)
        return _int_of_integral(r)

    def ceil(self):
        if self.ratio is not None:
            num, den = self.ratio
            return -((-num) // den)
        return self._to_int(RTP)

    def floor(self):
        if self.ratio is not None:
            num, den = self.ratio
            return num // den
        return self._to_int(RTN)

    # arithmetic
    def _bin(self, o, f, swap=False):
        b = lift(o)
        if b is None:
            return NotImplemented
        a = self
        if swap:
            a, b = b, a
        return SymFloat(f(RNE, a.t, b.t))

    def __add__(self, o): return self._bin(o, z3.fpAdd)
    def __radd__(self, o): return self._bin(o, z3.fpAdd, True)
    def __sub__(self, o): return self._bin(o, z3.fpSub)
    def __rsub__(self, o): return self._bin(o, z3.fpSub, True)
    def __mul__(self, o): return self._bin(o, z3.fpMul)
    def __rmul__(self, o): return self._bin(o, z3.fpMul, True)

    def __truediv__(self, o):
        return truediv(self, o)

    def __rtruediv__(self, o):
        return truediv(o, self)

    def __neg__(self):
        return SymFloat(z3.fpNeg(self.t))

    def __pos__(self):
        return self

    def __abs__(self):
        return SymFloat(z3.fpAbs(self.t))

    def __eq__(self, o): return compare(self, o, "==")
    def __ne__(self, o):
        r = compare(self, o, "==")
        return ~r if isinstance(r, SymBool) else (not r)
    def __lt__(self, o): return compare(self, o, "<")
    def __le__(self, o): return compare(self, o, "<=")
    def __gt__(self, o): return compare(self, o, ">")
    def __ge__(self, o): return compare(self, o, ">=")

    # helpers for harness code
    def isnan(self): return SymBool(z3.fpIsNaN(self.t))
    def isinf(self): return SymBool(z3.fpIsInf(self.t))

    def bits(self):
        """IEEE bit image as unsigned SymInt (64 bit)."""
        return SymInt(z3.ZeroExt(W - 64, z3.fpToIEEEBV(self.t)), 0, (1 << 64) - 1)


def _int_of_integral(r):
    """SymInt equal to the integral FP value r; keeps r so that a later int->float conversion of the
    very same value does not go through fpToSBV/fpSignedToFP."""
    return SymInt(z3.SignExt(W - 64, z3.fpToSBV(RTZ, r, z3.BitVecSort(64))), -(1 << 62), 1 << 62, fp=r)


def _ite_int(c, a, b):
    from .core import _lift
    a = _lift(a)
    b = _lift(b)
    return SymInt(z3.If(c.t, a.t, b.t), min(a.lo, b.lo), max(a.hi, b.hi))


def lift(x):
    if isinstance(x, SymFloat):
        return x
    if isinstance(x, bool):
        x = int(x)
    if isinstance(x, int):
        return SymFloat(z3.FPVal(float(x), F64))
    if isinstance(x, float):
        return SymFloat(z3.FPVal(x, F64))
    if isinstance(x, SymBool):
        x = x._as_int()
    if isinstance(x, SymInt):
        if x.fp is not None:
            return SymFloat(x.fp)
        return SymFloat(z3.fpSignedToFP(RNE, _narrow(x), F64))
    return None


def _narrow(x):
    """the narrowest of 32/64/128-bit signed views that holds SymInt x (cheaper conversions)"""
    for bits in (32, 64):
        if -(1 << (bits - 1)) <= x.lo and x.hi < (1 << (bits - 1)):
            return z3.Extract(bits - 1, 0, x.t)
    return x.t


def _is_pow2_float(d):
    if isinstance(d, bool) or not isinstance(d, (int, float)):
        return False
    if d <= 0 or d != int(d):
        return False
    d = int(d)
    return d & (d - 1) == 0 and d < (1 << 60)


def truediv(a, b):
    if isinstance(b, (int, float)) and not isinstance(b, bool) and b == 0:
        raise ZeroDivisionError("division by zero")
    fa, fb = lift(a), lift(b)
    if fa is None or fb is None:
        return NotImplemented
    if not isinstance(b, (int, float)):
        if bool(SymBool(z3.fpIsZero(fb.t))):
            raise ZeroDivisionError("float division by zero")
    ratio = quot = None
    if isinstance(a, SymInt) and -(1 << 52) < a.lo and a.hi < (1 << 52):
        if _is_pow2_float(b):
            ratio = (a, int(b))
        if isinstance(b, (int, float)) and not isinstance(b, bool) and abs(b) >= 1:
            quot = (a, float(b))
    return SymFloat(z3.fpDiv(RNE, fa.t, fb.t), ratio, quot)


def compare(a, b, op):
    # fl(x/d) is injective in the integer x for |x| < 2**52 and |d| >= 1: decide equality on integers
    if op == "==" and isinstance(a, SymFloat) and isinstance(b, SymFloat) and a.quot and b.quot \
            and a.quot[1] == b.quot[1]:
        return a.quot[0] == b.quot[0]
    fa, fb = lift(a), lift(b)
    if fa is None or fb is None:
        return False if op == "==" else NotImplemented
    f = {"==": z3.fpEQ, "<": z3.fpLT, "<=": z3.fpLEQ, ">": z3.fpGT, ">=": z3.fpGEQ}[op]
    return SymBool(f(fa.t, fb.t))


def model_float(model, t):
    v = model.eval(z3.fpToIEEEBV(t), model_completion=True)
    if not z3.is_bv_value(v):
        v = z3.simplify(v)
    return _real.unpack("<d", _real.pack("<Q", v.as_long()))[0]


def fresh_float(name):
    c = ctx()
    nm = c._name(name)
    t = z3.FP(nm, F64)
    c.inputs.append((nm, "float", t))
    c.model = None
    return SymFloat(t)


# ---- struct 'f' / 'd' ------------------------------------------------------------------------

def pack_float(v, code, big, error):
    from .symbytes import _items_of
    if isinstance(v, (SymInt, SymBool)):
        v = lift(v)
    if not isinstance(v, SymFloat):
        try:
            data = _real.pack((">" if big else "<") + code, v)
        except _real.error as e:
            raise error(str(e))
        return list(data)
    if code == "d":
        bits = z3.fpToIEEEBV(v.t)
        n = 8
    else:
        f32 = z3.fpToFP(RNE, v.t, F32)
        ovf = z3.And(z3.fpIsInf(f32), z3.Not(z3.fpIsInf(v.t)))
        if bool(SymBool(ovf)):
            raise OverflowError("float too large to pack with f format")
        bits = z3.fpToIEEEBV(f32)
        n = 4
    items = [SymInt(z3.ZeroExt(W - 8, z3.Extract(8 * i + 7, 8 * i, bits)), 0, 255) for i in range(n)]
    return items[::-1] if big else items


def unpack_float(items, code, big):
    if all(type(b) is int for b in items):
        return _real.unpack((">" if big else "<") + code, bytes(items))[0]
    from .models.struct_model import bits_from_items
    bits = bits_from_items(items, big)
    if code == "d":
        return SymFloat(z3.fpBVToFP(bits, F64))
    return SymFloat(z3.fpToFP(RNE, z3.fpBVToFP(bits, F32), F64))


# ---- math model ---------------------------------------------------------------------------

class MathModel:
    def __init__(self):
        for k in dir(math):
            if not k.startswith("_") and k not in type(self).__dict__:
                setattr(self, k, getattr(math, k))

    @staticmethod
    def ceil(x):
        if isinstance(x, SymFloat):
            return x.ceil()
        if isinstance(x, (SymInt, SymBool)):
            return x
        return math.ceil(x)

    @staticmethod
    def floor(x):
        if isinstance(x, SymFloat):
            return x.floor()
        if isinstance(x, (SymInt, SymBool)):
            return x
        return math.floor(x)

    @staticmethod
    def trunc(x):
        if isinstance(x, SymFloat):
            return x.trunc()
        if isinstance(x, (SymInt, SymBool)):
            return x
        return math.trunc(x)

    @staticmethod
    def isnan(x):
        if isinstance(x, SymFloat):
            return x.isnan()
        return math.isnan(x)

    @staticmethod
    def isinf(x):
        if isinstance(x, SymFloat):
            return x.isinf()
        return math.isinf(x)
