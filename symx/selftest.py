"""Differential self-test of the pure-Python models against CPython on seeded concrete inputs
(struct, bytes-like helpers, CRC).  Run at the start of every check; a failure means the models drifted."""
import binascii
import random
import struct

from .models import struct_model, stdlib
from . import symbytes


def run(seed=0):
    rnd = random.Random(seed or 20260923)
    errs = []
    fmts = ["B", "b", "?", "<H", "<h", "<L", "<l", "<q", "<Q", ">H", ">L", "<BHB", "<BHBL", "<HB5s", "<BIBBB", "<LH",
            "<f", "<d", "BB", "BBB", "<BH", "<BI", "<BHBBB"]
    for fmt in fmts:
        m = struct_model.Struct(fmt)
        r = struct.Struct(fmt)
        if m.size != r.size:
            errs.append("size %s" % fmt)
        for _ in range(40):
            data = bytes(rnd.getrandbits(8) for _ in range(r.size))
            try:
                a = r.unpack(data)
            except struct.error:
                a = "err"
            try:
                b = m.unpack(data)
            except struct.error:
                b = "err"
            same = a == b or (isinstance(a, tuple) and all((x != x and y != y) or x == y for x, y in zip(a, b)))
            if not same:
                errs.append("unpack %s %s: %r != %r" % (fmt, data.hex(), a, b))
            if a != "err" and all(x == x for x in a):
                if r.pack(*a) != m.pack(*a):
                    errs.append("pack %s %r" % (fmt, a))
        # out-of-range and wrong-length behaviour
        for bad in (b"", b"\x00" * (r.size + 1)):
            try:
                r.unpack(bad)
                ra = "ok"
            except struct.error:
                ra = "err"
            try:
                m.unpack(bad)
                ma = "ok"
            except struct.error:
                ma = "err"
            if ra != ma:
                errs.append("unpack length %s %d" % (fmt, len(bad)))
    for fmt, vals in (("<h", (-32769, 32768, -32768, 32767)), ("B", (-1, 256, 0, 255)), ("<L", (-1, 2 ** 32)),
                      ("<q", (2 ** 63, -2 ** 63 - 1, -2 ** 63))):
        for v in vals:
            try:
                ra = struct.pack(fmt, v)
            except struct.error:
                ra = "err"
            try:
                ma = struct_model.pack(fmt, v)
            except struct.error:
                ma = "err"
            if ra != ma:
                errs.append("pack range %s %d" % (fmt, v))
    for _ in range(200):
        n = rnd.randrange(0, 40)
        data = bytes(rnd.getrandbits(8) for _ in range(n))
        init = rnd.getrandbits(16)
        # force the symbolic code path of the CRC model with concrete-valued proxies is not possible without a
        # context; compare the table-free GF(2) formulation on ints instead
        crc = init
        for b in data:
            x = ((crc >> 8) ^ b) & 0xFF
            acc = (crc << 8) & 0xFFFF
            for i in range(8):
                if (x >> i) & 1:
                    acc ^= stdlib._T_POW[i]
            crc = acc
        if crc != binascii.crc_hqx(data, init):
            errs.append("crc %s" % data.hex())
    ba = symbytes.SymByteArray([1, 2, 3, 4, 5, 6, 7, 8])
    rb = bytearray([1, 2, 3, 4, 5, 6, 7, 8])
    ba[1:3] = b"\xaa\xbb\xcc"
    rb[1:3] = b"\xaa\xbb\xcc"
    del ba[:2]
    del rb[:2]
    ba.extend(b"zz")
    rb.extend(b"zz")
    if bytes(ba) != bytes(rb) or (ba == rb) is not True or bytes(ba[2:5]) != bytes(rb[2:5]) or \
            bytes(symbytes.mkbytes(list(ba)).ljust(12, b"\x00")) != bytes(rb).ljust(12, b"\x00"):
        errs.append("bytearray model")
    return errs


if __name__ == "__main__":
    e = run()
    print("selftest:", "ok" if not e else e[:10])
    raise SystemExit(1 if e else 0)
