"""Load /repo/canopen/**/*.py from the current working tree under substituted builtins and
stdlib models.  The functions of canopen run as written; only dict/set displays are rewritten
(to SymDict/SymSet) because they are syntax, not a builtin call.

Two package sets can coexist: the *symbolic* one (this loader) and the *native* one (ordinary
import of the unmodified package).  `activate(which)` installs one of them in sys.modules so
that function-level imports inside canopen resolve consistently."""
import ast
import builtins as _b
import importlib
import os
import sys
import types

from .models import struct_model, stdlib, io_model, builtins_model, can_model
from . import symfloat

REPO = os.environ.get("VERIF_REPO", "/repo")

REWRITES = {}          # module name -> number of rewritten displays
_SETS = {"sym": None, "native": None, "suite": None}
_ACTIVE = [None]


class _Rewriter(ast.NodeTransformer):
    def __init__(self):
        self.count = 0

    def visit_Dict(self, node):
        self.generic_visit(node)
        if any(k is None for k in node.keys):
            # {**a, ...}: build through update()
            raise NotImplementedError("dict unpacking display")
        self.count += 1
        items = ast.List(elts=[ast.Tuple(elts=[k, v], ctx=ast.Load())
                               for k, v in zip(node.keys, node.values)], ctx=ast.Load())
        return ast.copy_location(
            ast.Call(func=ast.Name(id="__symx_dict__", ctx=ast.Load()), args=[items], keywords=[]),
            node)

    def visit_Set(self, node):
        self.generic_visit(node)
        self.count += 1
        items = ast.List(elts=list(node.elts), ctx=ast.Load())
        return ast.copy_location(
            ast.Call(func=ast.Name(id="__symx_set__", ctx=ast.Load()), args=[items], keywords=[]),
            node)

    def visit_DictComp(self, node):
        self.generic_visit(node)
        self.count += 1
        lc = ast.ListComp(elt=ast.Tuple(elts=[node.key, node.value], ctx=ast.Load()),
                          generators=node.generators)
        return ast.copy_location(
            ast.Call(func=ast.Name(id="__symx_dict__", ctx=ast.Load()), args=[lc], keywords=[]),
            node)

    def visit_SetComp(self, node):
        self.generic_visit(node)
        self.count += 1
        lc = ast.ListComp(elt=node.elt, generators=node.generators)
        return ast.copy_location(
            ast.Call(func=ast.Name(id="__symx_set__", ctx=ast.Load()), args=[lc], keywords=[]),
            node)


def _module_files(repo):
    root = os.path.join(repo, "canopen")
    out = {}
    for dp, dn, fn in os.walk(root):
        dn[:] = [d for d in dn if d != "__pycache__"]
        for f in fn:
            if not f.endswith(".py"):
                continue
            path = os.path.join(dp, f)
            rel = os.path.relpath(path, repo)[:-3].replace(os.sep, ".")
            ispkg = False
            if rel.endswith(".__init__"):
                rel = rel[:-9]
                ispkg = True
            out[rel] = (path, ispkg)
    return out


class _SymLoader:
    def __init__(self, repo, profile):
        self.repo = repo
        self.profile = profile
        self.files = _module_files(repo)
        self.modules = {}
        self.subst = self._substitutions(profile)
        self.builtins = builtins_model.make_builtins(self._import)

    def _substitutions(self, profile):
        s = {"struct": _as_module("struct", struct_model), "math": symfloat.MathModel()}
        s["binascii"] = stdlib.binascii_model
        if profile == "sym":
            s.update({
                "queue": stdlib.queue_model, "time": stdlib.time_model,
                "threading": stdlib.threading_model, "logging": stdlib.logging_model,
                "io": _as_module("io", io_model), "can": can_model.can,
            })
        return s

    # the __import__ seen by loaded canopen modules
    def _import(self, name, globals=None, locals=None, fromlist=(), level=0):
        if level == 0:
            top = name.split(".")[0]
            if top in self.subst:
                if "." in name and not fromlist:
                    return self.subst[top]
                mod = self.subst[top]
                for part in name.split(".")[1:]:
                    mod = getattr(mod, part)
                return mod if fromlist else self.subst[top]
            if top == "canopen":
                self._ensure(name)
                if fromlist:
                    for f in fromlist:
                        sub = name + "." + f
                        if sub in self.files:
                            self._ensure(sub)
                    return self.modules[name]
                return self.modules["canopen"]
        elif globals is not None:
            pkg = globals.get("__package__") or globals["__name__"].rpartition(".")[0]
            base = pkg.split(".")
            if level > 1:
                base = base[:-(level - 1)]
            full = ".".join(base + ([name] if name else []))
            return self._import(full, globals, locals, fromlist, 0)
        return _b.__import__(name, globals, locals, fromlist, level)

    def _ensure(self, name):
        parts = name.split(".")
        for i in range(1, len(parts) + 1):
            n = ".".join(parts[:i])
            if n not in self.modules:
                if n not in self.files:
                    raise ImportError("No module named %r (symx loader)" % n)
                self._load(n)

    def _load(self, name):
        path, ispkg = self.files[name]
        with open(path, "r", encoding="utf-8") as f:
            src = f.read()
        tree = ast.parse(src, filename=path)
        rw = _Rewriter()
        tree = rw.visit(tree)
        ast.fix_missing_locations(tree)
        REWRITES[name] = rw.count
        code = compile(tree, path, "exec", dont_inherit=True)
        mod = types.ModuleType(name)
        mod.__file__ = path
        mod.__builtins__ = self.builtins
        if ispkg:
            mod.__path__ = [os.path.dirname(path)]
            mod.__package__ = name
        else:
            mod.__package__ = name.rpartition(".")[0]
        self.modules[name] = mod
        sys.modules[name] = mod
        try:
            exec(code, mod.__dict__)
        except BaseException:
            self.modules.pop(name, None)
            sys.modules.pop(name, None)
            raise
        parent, _, child = name.rpartition(".")
        if parent:
            setattr(self.modules[parent], child, mod)
        return mod


def _as_module(name, src):
    m = types.ModuleType(name)
    for k, v in vars(src).items():
        if not k.startswith("__"):
            setattr(m, k, v)
    return m


def _purge():
    saved = {}
    for k in list(sys.modules):
        if k == "canopen" or k.startswith("canopen."):
            saved[k] = sys.modules.pop(k)
    return saved


def load_symbolic(profile="sym"):
    """Load (once) the package through the loader; returns the dict of modules."""
    if _SETS[profile] is None:
        prev = _purge()
        try:
            ld = _SymLoader(REPO, profile)
            ld._ensure("canopen")
            for n in sorted(ld.files):
                if n.startswith("canopen.profiles.tools"):
                    continue
                ld._ensure(n)
            _SETS[profile] = dict(ld.modules)
        finally:
            _purge()
            sys.modules.update(prev)
    return _SETS[profile]


def load_native():
    if _SETS["native"] is None:
        prev = _purge()
        try:
            if sys.path[0] != REPO:
                sys.path.insert(0, REPO)
            importlib.invalidate_caches()
            # deterministic environment for native runs: canopen binds queue/time/threading to the
            # models (fake clock, delivery hook, scheduler) already at import time, so that objects
            # created at import or class-definition time use them too; python-can is imported first
            # and keeps the real modules.  The package source and struct/io/bytes/dict stay real.
            importlib.import_module("can")
            saved_std = {k: sys.modules.get(k) for k in ("queue", "time", "threading")}
            sys.modules["queue"] = stdlib.queue_model
            sys.modules["time"] = stdlib.time_model
            sys.modules["threading"] = stdlib.threading_model
            try:
                importlib.import_module("canopen")
                importlib.import_module("canopen.profiles.p402")
                importlib.import_module("canopen.objectdictionary.eds")
            finally:
                for k, v in saved_std.items():
                    if v is None:
                        sys.modules.pop(k, None)
                    else:
                        sys.modules[k] = v
            mods = {k: v for k, v in sys.modules.items()
                    if k == "canopen" or k.startswith("canopen.")}
            f = mods["canopen"].__file__
            if not os.path.realpath(f).startswith(os.path.realpath(REPO) + os.sep):
                raise RuntimeError("native canopen imported from %s, expected %s" % (f, REPO))
            # deterministic environment for native runs: fake clock, queue/condition models with
            # the delivery hook (the package source and struct/io/bytes/dict stay the real ones)
            for mn, names in (("canopen.sdo.client", ("queue", "time")), ("canopen.lss", ("queue", "time")),
                              ("canopen.nmt", ("threading", "time")), ("canopen.emcy", ("threading", "time")),
                              ("canopen.pdo.base", ("threading",)), ("canopen.profiles.p402", ("time",)),
                              ("canopen.timestamp", ("time",))):
                for nm in names:
                    if hasattr(mods[mn], nm):
                        setattr(mods[mn], nm, getattr(stdlib, nm + "_model"))
            import logging
            logging.disable(logging.CRITICAL)
            _SETS["native"] = mods
        finally:
            _purge()
            sys.modules.update(prev)
    return _SETS["native"]


def activate(which):
    """Install the 'sym' / 'suite' / 'native' package set into sys.modules."""
    mods = load_native() if which == "native" else load_symbolic(which)
    _purge()
    sys.modules.update(mods)
    _ACTIVE[0] = which
    return mods


def active():
    return _ACTIVE[0]
