"""Reference SDO block-transfer servers (CiA 301 7.2.4.3.9 - 7.2.4.3.17), written from the standard.

BlockDownloadServer: receives a block download, checks every client frame, commits only if
everything matches.  BlockUploadServer: serves a value by block upload and checks the client's
acknowledgements."""
from symx import api as sx


def le32(v):
    return [sx.byte_of(v, i) for i in range(4)]


def u32(b):
    return b[0] | (b[1] << 8) | (b[2] << 16) | (b[3] << 24)


def crc16(items, crc=0):
    """CRC-16/XMODEM of the byte items.  Uses the engine's model of binascii.crc_hqx (validated against
    the C function at start-up), so that the comparison with the client's CRC is structural: what is
    decided is that the client feeds exactly the payload bytes, in order, from initial value 0."""
    from symx.models.stdlib import crc_hqx
    return crc_hqx(sx.mkbytes(list(items)), crc)


class BlockDownloadServer:
    def __init__(self, blksizes, crc=True, tag="C12"):
        self.tag = tag
        self.blksizes = list(blksizes)     # block size for successive sub-blocks (last one repeats)
        self.use_crc = crc
        self.state = "idle"
        self.commits = []
        self.aborted = None
        self.check = True
        self.frames = 0

    def _p(self, cond, what):
        if self.check:
            sx.prove(cond, "client block download: " + what, "%s/frame/%s" % (self.tag, what))

    def _next_blksize(self):
        if self.blksizes == ["sym"]:
            # the server chooses the size of every sub-block anew (symbolic choice among typical sizes)
            return (1, 2, 3, 127)[sx.choice(4, "blksize")]
        if len(self.blksizes) > 1:
            return self.blksizes.pop(0)
        return self.blksizes[0]

    def _abort(self, code):
        self.aborted = code
        self.state = "idle"
        return [sx.mkbytes([0x80, self.mux[0], self.mux[1], self.mux[2]] + le32(code))]

    def on_request(self, frame):
        f = sx.items(frame)
        self.frames += 1
        self._p(len(f) == 8, "8-bytes")
        if len(f) != 8:
            return []
        if self.state == "idle":
            return self._initiate(f)
        if self.state == "segments":
            return self._segment(f)
        if self.state == "end":
            return self._end(f)
        return []

    def _initiate(self, f):
        cmd = f[0]
        if (cmd >> 5) == 4:
            return []          # client abort
        self._p((cmd >> 5) == 6, "initiate-ccs")
        self._p((cmd & 0x19) == 0, "initiate-reserved-bits-and-cs")
        self.mux = f[1:4]
        if self.expect_mux is not None:
            idx, sub = self.expect_mux
            self._p(((f[1] | (f[2] << 8)) == idx) & (f[3] == sub), "multiplexer")
        cc = (cmd >> 2) & 1
        s = (cmd >> 1) & 1
        self.declared = u32(f[4:8]) if s == 1 else None
        if s == 0:
            self._p(sx.all_([b == 0 for b in f[4:8]]), "initiate-reserved-zero")
        self.crc_on = bool(self.use_crc and cc == 1)
        self.blksize = self._next_blksize()
        self.ackseq = 0
        self.insync = True
        self.data = []
        self.sub = []            # segments accepted in the current sub-block
        self.last_seen = False
        self.state = "segments"
        sc = self.use_crc if getattr(self, "sc_capability", False) else self.crc_on
        return [sx.mkbytes([0xA0 | (0x04 if sc else 0)] + self.mux + [self.blksize, 0, 0, 0])]

    expect_mux = None

    def _segment(self, f):
        cmd = f[0]
        c = (cmd >> 7) & 1
        seq = cmd & 0x7F
        self._p((seq >= 1) & (seq <= self.blksize), "sequence-number-in-block")
        if self.insync and bool(seq == self.ackseq + 1):
            self.ackseq += 1
            self.sub.append(f[1:8])
            if c == 1:
                self.last_seen = True
        else:
            self.insync = False          # out of sequence: everything until the block ends is ignored
        if bool(seq == self.blksize) or c == 1:
            # end of the sub-block: acknowledge the last segment received in sequence
            ack = self.ackseq
            for seg in self.sub:
                self.data.extend(seg)
            done = self.last_seen
            nb = self._next_blksize()
            resp = [sx.mkbytes([0xA2, ack, nb, 0, 0, 0, 0, 0])]
            self.blksize = nb
            self.ackseq = 0
            self.insync = True
            self.sub = []
            if done:
                self.state = "end"
            return resp
        return []

    def timeout(self):
        """the server's block time-out: segments are missing at the end of the sub-block, so it
        acknowledges the last segment received in sequence"""
        if self.state != "segments":
            return []
        ack = self.ackseq
        for seg in self.sub:
            self.data.extend(seg)
        done = self.last_seen
        nb = self._next_blksize()
        self.blksize = nb
        self.ackseq = 0
        self.insync = True
        self.sub = []
        if done:
            self.state = "end"
        return [sx.mkbytes([0xA2, ack, nb, 0, 0, 0, 0, 0])]

    def _end(self, f):
        cmd = f[0]
        self._p((cmd >> 5) == 6, "end-ccs")
        self._p((cmd & 0x03) == 1, "end-cs")
        n = (cmd >> 2) & 7
        total = len(self.data) - n
        ok = True
        self._p(sx.all_([b == 0 for b in f[3:8]]), "end-reserved-zero")
        if total < 0 or (len(self.data) >= 7 and n > 6 and False):
            ok = False
        data = self.data[:max(total, 0)]
        if self.declared is not None:
            self._p(self.declared == total, "declared-size-equals-sent")
            if not bool(self.declared == total) and getattr(self, "strict_size", True):
                ok = False           # (checking the received length against the declared size is optional for a server)
        if self.crc_on:
            got = f[1] | (f[2] << 8)
            want = crc16(data)
            self._p(got == want, "crc")
            if not bool(got == want):
                return self._abort(0x05040004)
        elif not getattr(self, "sc_capability", False):
            # (when the client did not ask and the server merely states its capability, the field is not looked at:
            # the property only speaks of the CRC "when negotiated")
            self._p((f[1] == 0) & (f[2] == 0), "crc-field-zero-without-crc")
        if not ok:
            return self._abort(0x06070010)
        self.commits.append(((self.mux[0] | (self.mux[1] << 8)), self.mux[2], data))
        self.state = "idle"
        return [sx.mkbytes([0xA1, 0, 0, 0, 0, 0, 0, 0])]


class BlockUploadServer:
    """serves `value` by block upload: segments of 7 bytes, sub-blocks of the client's blksize, sequence
    numbers restart at 1 after every acknowledge, end frame with n and CRC, waits for the client's end
    confirmation"""

    def __init__(self, value, crc=True, size_indicated=True, tag="C13", sc_capability=False):
        self.tag = tag
        self.value = list(value)
        self.use_crc = crc
        # sc_capability: the sc bit reports what the server *can* do (CiA 301: "server supports generating CRC"),
        # whatever the client asked for; the CRC is generated only when both bits are set, else the field is 0
        self.sc_capability = sc_capability
        self.size_indicated = size_indicated
        self.state = "idle"
        self.check = True
        self.finished = 0
        self.expect_mux = None
        self.acks = []
        self.client_abort = None

    def _p(self, cond, what):
        if self.check:
            sx.prove(cond, "client block upload: " + what, "%s/frame/%s" % (self.tag, what))

    def on_request(self, frame):
        f = sx.items(frame)
        self._p(len(f) == 8, "8-bytes")
        if len(f) != 8:
            return []
        cmd = f[0]
        if (cmd >> 5) == 4:
            self.client_abort = u32(f[4:8])
            self.state = "idle"
            return []
        if self.state == "idle":
            return self._initiate(f)
        if self.state == "wait-start":
            self._p(cmd == 0xA3, "start-upload-command")
            self._p(sx.all_([b == 0 for b in f[1:8]]), "start-upload-reserved-zero")
            return self._send_block()
        if self.state == "wait-ack":
            return self._ack(f)
        if self.state == "wait-end":
            self._p(cmd == 0xA1, "end-confirmation-command")
            self._p(sx.all_([b == 0 for b in f[1:8]]), "end-confirmation-reserved-zero")
            self.state = "idle"
            self.finished += 1
            return []
        return []

    def _initiate(self, f):
        cmd = f[0]
        self._p((cmd >> 5) == 5, "initiate-ccs")
        self._p((cmd & 0x03) == 0, "initiate-cs")
        self._p((cmd & 0x18) == 0, "initiate-reserved-bits")
        self.mux = f[1:4]
        if self.expect_mux is not None:
            idx, sub = self.expect_mux
            self._p(((f[1] | (f[2] << 8)) == idx) & (f[3] == sub), "multiplexer")
        cc = (cmd >> 2) & 1
        self.blksize = f[4]
        self._p((self.blksize >= 1) & (self.blksize <= 127), "blksize-range")
        self._p((f[6] == 0) & (f[7] == 0), "initiate-reserved-zero")
        self.crc_on = bool(self.use_crc and cc == 1)
        self.segs = [self.value[i:i + 7] for i in range(0, len(self.value), 7)] or [[]]
        self.next = 0                 # index of the first segment of the current sub-block
        self.state = "wait-start"
        size = le32(len(self.value)) if self.size_indicated else [0, 0, 0, 0]
        sc = self.use_crc if self.sc_capability else self.crc_on
        return [sx.mkbytes([0xC0 | (0x04 if sc else 0) | (0x02 if self.size_indicated else 0)] +
                           self.mux + size)]

    def _send_block(self):
        """all segments of the current sub-block, numbered from 1"""
        out = []
        bs = sx.concretize(self.blksize)
        blk = self.segs[self.next:self.next + bs]
        for i, seg in enumerate(blk):
            last = (self.next + i == len(self.segs) - 1)
            out.append(sx.mkbytes([(0x80 if last else 0) | (i + 1)] + seg + [0] * (7 - len(seg))))
        self.sent_in_block = len(blk)
        self.state = "wait-ack"
        return out

    def _ack(self, f):
        cmd = f[0]
        self._p(cmd == 0xA2, "block-ack-command")
        ackseq = f[1]
        self.acks.append((ackseq, f[2]))
        self._p((ackseq >= 0) & (ackseq <= self.sent_in_block), "ackseq-range")
        self._p((f[2] >= 1) & (f[2] <= 127), "ack-blksize-range")
        self._p(sx.all_([b == 0 for b in f[3:8]]), "ack-reserved-zero")
        a = sx.concretize(ackseq)
        if a > self.sent_in_block:
            a = self.sent_in_block
        self.next += a
        self.blksize = f[2]
        if self.next >= len(self.segs):
            # everything acknowledged: end frame
            lastlen = len(self.segs[-1])
            n = 7 - lastlen
            crc = crc16(self.value) if self.crc_on else 0
            self.state = "wait-end"
            return [sx.mkbytes([0xC1 | (n << 2), sx.byte_of(crc, 0), sx.byte_of(crc, 1), 0, 0, 0, 0, 0])]
        return self._send_block()
