"""CiA 301 facts written independently of the canopen package (data type table, SDO abort
codes, little-endian encoding)."""

# code: (name, bit width, signed)
INT_TYPES = {
    0x02: ("INTEGER8", 8, True), 0x03: ("INTEGER16", 16, True), 0x10: ("INTEGER24", 24, True),
    0x04: ("INTEGER32", 32, True), 0x12: ("INTEGER40", 40, True), 0x13: ("INTEGER48", 48, True),
    0x14: ("INTEGER56", 56, True), 0x15: ("INTEGER64", 64, True),
    0x05: ("UNSIGNED8", 8, False), 0x06: ("UNSIGNED16", 16, False), 0x16: ("UNSIGNED24", 24, False),
    0x07: ("UNSIGNED32", 32, False), 0x18: ("UNSIGNED40", 40, False), 0x19: ("UNSIGNED48", 48, False),
    0x1A: ("UNSIGNED56", 56, False), 0x1B: ("UNSIGNED64", 64, False),
}
BOOLEAN = 0x01
REAL32 = 0x08
REAL64 = 0x11
VISIBLE_STRING = 0x09
OCTET_STRING = 0x0A
UNICODE_STRING = 0x0B
DOMAIN = 0x0F

NAMES = {c: n for c, (n, w, s) in INT_TYPES.items()}
NAMES.update({BOOLEAN: "BOOLEAN", REAL32: "REAL32", REAL64: "REAL64", VISIBLE_STRING: "VISIBLE_STRING",
              OCTET_STRING: "OCTET_STRING", UNICODE_STRING: "UNICODE_STRING", DOMAIN: "DOMAIN"})


def int_range(code):
    n, w, s = INT_TYPES[code]
    return (-(1 << (w - 1)), (1 << (w - 1)) - 1) if s else (0, (1 << w) - 1)


def width(code):
    if code in INT_TYPES:
        return INT_TYPES[code][1]
    return {BOOLEAN: 8, REAL32: 32, REAL64: 64}[code]


# SDO abort codes (CiA 301 table 22)
ABORT_TOGGLE = 0x05030000
ABORT_TIMEOUT = 0x05040000
ABORT_UNKNOWN_COMMAND = 0x05040001
ABORT_CRC = 0x05040004
ABORT_READ_WO = 0x06010001
ABORT_WRITE_RO = 0x06010002
ABORT_NO_OBJECT = 0x06020000
ABORT_LENGTH = 0x06070010
ABORT_NO_SUBINDEX = 0x06090011
ABORT_NO_DATA = 0x060A0023   # "resource not available" (the code the repo's suite expects)
ABORT_NO_DATA_ALT = 0x08000024
ABORT_GENERAL = 0x08000000
