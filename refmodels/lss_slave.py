"""Reference LSS slave (CiA 305): fast-scan state machine, switch state global/selective, inquire,
configure node id / bit timing, store.  Identity = (vendor, product, revision, serial), 32 bit each
(possibly symbolic).  Frames are 8 byte items."""
from symx import api as sx

WAITING, CONFIGURATION = 0, 1


def le32(v):
    return [sx.byte_of(v, i) for i in range(4)]


def u32(b):
    return b[0] | (b[1] << 8) | (b[2] << 16) | (b[3] << 24)


class LssSlave:
    def __init__(self, identity, node_id=0xFF, tag="C18"):
        self.id = list(identity)
        self.node_id = node_id           # 0xFF = unconfigured
        self.pending_node_id = node_id
        self.state = WAITING
        self.lss_pos = 0
        self.sel = [False, False, False]
        self.tag = tag
        self.check = True
        self.stored = 0
        self.bit_timing = None
        self.activated = None
        self.frames = []

    def _p(self, cond, what):
        if self.check:
            sx.prove(cond, "LSS request: " + what, "%s/frame/%s" % (self.tag, what))

    def on_frame(self, frame):
        f = sx.items(frame)
        self.frames.append(frame)
        self._p(len(f) == 8, "8-bytes")
        if len(f) != 8:
            return []
        cs = f[0]
        if cs == 0x51:
            return self._fastscan(f)
        if cs == 0x04:
            self._p(sx.all_([b == 0 for b in f[2:8]]), "reserved-zero")
            mode = f[1]
            self.state = CONFIGURATION if bool(mode == 1) else WAITING
            return []
        if 0x40 <= cs <= 0x43:
            self._p(sx.all_([b == 0 for b in f[5:8]]), "reserved-zero")
            part = cs - 0x40
            ok = bool(u32(f[1:5]) == self.id[part])
            if part < 3:
                self.sel[part] = ok
                if part == 0:
                    self.sel[1] = self.sel[2] = False
                return []
            if ok and all(self.sel):
                self.state = CONFIGURATION
                self.sel = [False, False, False]
                return [sx.mkbytes([0x44, 0, 0, 0, 0, 0, 0, 0])]
            self.sel = [False, False, False]
            return []
        if self.state != CONFIGURATION:
            return []
        if 0x5A <= cs <= 0x5D:
            self._p(sx.all_([b == 0 for b in f[1:8]]), "reserved-zero")
            return [sx.mkbytes([cs] + le32(self.id[cs - 0x5A]) + [0, 0, 0])]
        if cs == 0x5E:
            self._p(sx.all_([b == 0 for b in f[1:8]]), "reserved-zero")
            return [sx.mkbytes([0x5E, self.node_id, 0, 0, 0, 0, 0, 0])]
        if cs == 0x11:
            self._p(sx.all_([b == 0 for b in f[2:8]]), "reserved-zero")
            nid = f[1]
            ok = bool(((nid >= 1) & (nid <= 127)) | (nid == 0xFF))
            if ok:
                self.pending_node_id = nid
            return [sx.mkbytes([0x11, 0 if ok else 1, 0, 0, 0, 0, 0, 0])]
        if cs == 0x13:
            self._p(sx.all_([b == 0 for b in f[3:8]]), "reserved-zero")
            self._p(f[1] == 0, "bit-timing-table-selector")
            ok = bool(f[2] <= 9) and not bool(f[2] == 5)
            if ok:
                self.bit_timing = f[2]
            return [sx.mkbytes([0x13, 0 if ok else 1, 0, 0, 0, 0, 0, 0])]
        if cs == 0x15:
            self._p(sx.all_([b == 0 for b in f[3:8]]), "reserved-zero")
            self.activated = f[1] | (f[2] << 8)
            return []
        if cs == 0x17:
            self._p(sx.all_([b == 0 for b in f[1:8]]), "reserved-zero")
            self.stored += 1
            return [sx.mkbytes([0x17, 0, 0, 0, 0, 0, 0, 0])]
        return []

    def _fastscan(self, f):
        if self.state != WAITING or not bool(self.node_id == 0xFF):
            return []
        idnum = u32(f[1:5])
        bitcheck, sub, nxt = f[5], f[6], f[7]
        self._p((bitcheck <= 31) | (bitcheck == 0x80), "bit-check-range")
        self._p((sub <= 3) & (nxt <= 3), "sub-next-range")
        if bool(bitcheck == 0x80):
            self.lss_pos = 0
            return [sx.mkbytes([0x4F, 0, 0, 0, 0, 0, 0, 0])]
        if not bool(sub == self.lss_pos):
            return []
        bc = sx.concretize(bitcheck)
        s = sx.concretize(sub)
        mask = (0xFFFFFFFF << bc) & 0xFFFFFFFF
        if bool(((idnum ^ self.id[s]) & mask) == 0):
            self.lss_pos = sx.concretize(nxt)
            if bc == 0 and self.lss_pos < s:
                self.state = CONFIGURATION
            return [sx.mkbytes([0x4F, 0, 0, 0, 0, 0, 0, 0])]
        return []
