"""A strict CiA 301 device holding the communication and mapping record of one PDO as integer
cells.  It logs every SDO write and *refuses* writes a strict device would refuse:
  - a mapping entry while the mapping count is not 0 or while the PDO is valid,
  - the mapping count while the PDO is valid,
  - a COB-ID write that changes bits 0..29 and leaves the PDO valid (it must be invalidated first).
Reads/writes arrive as (index, sub, little-endian bytes), i.e. at the SdoClient.upload/download API."""
from symx import api as sx

VALID_BIT = 1 << 31
SIZES = {1: 4, 2: 1, 3: 2, 5: 2, 6: 1}


class Refused(Exception):
    def __init__(self, code):
        self.code = code


class PdoDevice:
    def __init__(self, com_index, map_index, subs=(1, 2, 3, 5, 6), nmap=8):
        self.ci, self.mi = com_index, map_index
        self.com = {s: 0 for s in subs}
        self.com[1] = VALID_BIT          # invalid PDO, COB-ID 0
        self.map = [0] * (nmap + 1)      # [0] = count
        self.log = []                    # accepted writes (index, sub, value)
        self.refused = []                # refused writes (index, sub, value, reason)
        self.abort_cls = None            # exception class to raise (set by the harness)
        self.busy = False                # True: the device refuses every write to the mapping object (wrong NMT state)

    def valid(self):
        return (self.com[1] & VALID_BIT) == 0

    # ---- SDO API ---------------------------------------------------------------------------
    def upload(self, index, sub):
        if index == self.ci:
            if sub == 0:
                return sx.mkbytes([max(self.com)])
            if sub not in self.com:
                raise self.abort_cls(0x06090011)
            v = self.com[sub]
            return sx.mkbytes([sx.byte_of(v, i) for i in range(SIZES[sub])])
        if index == self.mi:
            if sub == 0:
                return sx.mkbytes([self.map[0]])
            if not 1 <= sub < len(self.map):
                raise self.abort_cls(0x06090011)
            return sx.mkbytes([sx.byte_of(self.map[sub], i) for i in range(4)])
        raise self.abort_cls(0x06020000)

    def download(self, index, sub, data, force_segment=False):
        v = sx.le_int(sx.items(data))
        n = len(sx.items(data))
        if index == self.ci:
            if sub not in self.com:
                raise self.abort_cls(0x06090011)
            if n != SIZES[sub]:
                self._refuse(index, sub, v, "length")
            if sub == 1 and bool(self.valid()) and bool((v & VALID_BIT) == 0):
                # bits 0..29 must not change while the PDO exists: a write that keeps it valid may
                # not alter them (a write that invalidates it at the same time is accepted)
                same_id = ((v ^ self.com[1]) & 0x3FFFFFFF) == 0
                if not bool(same_id):
                    self._refuse(index, sub, v, "cob-id changed while valid")
            self.com[sub] = v
            self.log.append((index, sub, v))
            return
        if index == self.mi:
            if not 0 <= sub < len(self.map):
                raise self.abort_cls(0x06090011)
            if self.busy:
                self._refuse(index, sub, v, "mapping not writable in the present device state")
            if bool(self.valid()):
                self._refuse(index, sub, v, "mapping written while the PDO is valid")
            if sub == 0:
                if n != 1:
                    self._refuse(index, sub, v, "length")
            else:
                if n != 4:
                    self._refuse(index, sub, v, "length")
                if not bool(self.map[0] == 0):
                    self._refuse(index, sub, v, "mapping entry written while the count is not 0")
            self.map[sub] = v
            self.log.append((index, sub, v))
            return
        raise self.abort_cls(0x06020000)

    def _refuse(self, index, sub, v, why):
        self.refused.append((index, sub, v, why))
        raise self.abort_cls(0x08000022)
