"""CiA 402 power drive state machine, written from the standard (controlword commands with
don't-care bits, automatic transitions 0/1/14, optional transition 16 supported).  Statusword =
state pattern | arbitrary bits outside the state's mask."""
from symx import api as sx

NOT_READY = "NOT READY TO SWITCH ON"
SOD = "SWITCH ON DISABLED"
RTSO = "READY TO SWITCH ON"
SO = "SWITCHED ON"
OE = "OPERATION ENABLED"
QSA = "QUICK STOP ACTIVE"
FRA = "FAULT REACTION ACTIVE"
FAULT = "FAULT"
ALL_STATES = [NOT_READY, SOD, RTSO, SO, OE, QSA, FRA, FAULT]
COMMANDABLE = [SOD, RTSO, SO, OE, QSA]

# statusword patterns: (mask, value)   xxxx xxxx x?xx ????
PATTERN = {
    NOT_READY: (0x4F, 0x00),   # x0xx 0000
    SOD: (0x4F, 0x40),         # x1xx 0000
    RTSO: (0x6F, 0x21),        # x01x 0001
    SO: (0x6F, 0x23),          # x01x 0011
    OE: (0x6F, 0x27),          # x01x 0111
    QSA: (0x6F, 0x07),         # x00x 0111
    FRA: (0x4F, 0x0F),         # x0xx 1111
    FAULT: (0x4F, 0x08),       # x0xx 1000
}

# operation modes (object 0x6060/0x6061) and their bit in 0x6502
MODES = {
    "PROFILED POSITION": (1, 0), "VELOCITY": (2, 1), "PROFILED VELOCITY": (3, 2),
    "PROFILED TORQUE": (4, 3), "HOMING": (6, 5), "INTERPOLATED POSITION": (7, 6),
    "CYCLIC SYNCHRONOUS POSITION": (8, 7), "CYCLIC SYNCHRONOUS VELOCITY": (9, 8),
    "CYCLIC SYNCHRONOUS TORQUE": (10, 9),
}


def decode_status(sw):
    """independent decoding of a statusword: name of the matching state or 'UNKNOWN'
    (symbolic-safe: returns a list of (name, condition))"""
    return [(name, (sw & m) == v) for name, (m, v) in PATTERN.items()]


class Drive:
    def __init__(self, state, auto_delay=0, qsa_auto=False):
        # qsa_auto: quick stop option code 1/2/3 - the drive leaves QUICK STOP ACTIVE on its own for SWITCH ON
        # DISABLED (transition 12) once the stop is complete, and does not offer transition 16
        self.qsa_auto = qsa_auto
        self.state = state
        self.cw = 0
        self.trace = [state]
        self.cw_writes = []
        self.auto_delay = auto_delay      # status reads before an automatic transition happens
        self.supported = 0
        self.mode = 0
        self.mode_writes = []
        self.reads = 0

    def _go(self, s):
        if s != self.state:
            self.state = s
            self.trace.append(s)

    def write_controlword(self, cw):
        prev = self.cw
        self.cw = cw
        self.cw_writes.append(cw)
        b = lambda n: (cw >> n) & 1
        if b(7):
            if not (prev >> 7) & 1 and self.state == FAULT:
                self._go(SOD)            # 15 fault reset (rising edge)
            return
        shutdown = b(2) == 1 and b(1) == 1 and b(0) == 0
        switch_on = b(3) == 0 and b(2) == 1 and b(1) == 1 and b(0) == 1
        enable_op = b(3) == 1 and b(2) == 1 and b(1) == 1 and b(0) == 1
        disable_voltage = b(1) == 0
        quick_stop = b(2) == 0 and b(1) == 1
        s = self.state
        if s == QSA and self.qsa_auto and self.auto_delay >= 2:
            # the quick stop ramp ends just as the command arrives: automatic transition 12, command not acted upon
            self.auto_delay = 0
            self._go(SOD)
            return
        if s == SOD:
            if shutdown:
                self._go(RTSO)           # 2
        elif s == RTSO:
            if switch_on:
                self._go(SO)             # 3
            elif enable_op:
                self._go(SO)             # 3 + 4
                self._go(OE)
            elif disable_voltage or quick_stop:
                self._go(SOD)            # 7
        elif s == SO:
            if enable_op:
                self._go(OE)             # 4
            elif shutdown:
                self._go(RTSO)           # 6
            elif disable_voltage or quick_stop:
                self._go(SOD)            # 10
        elif s == OE:
            if switch_on:
                self._go(SO)             # 5 disable operation
            elif shutdown:
                self._go(RTSO)           # 8
            elif disable_voltage:
                self._go(SOD)            # 9
            elif quick_stop:
                self._go(QSA)            # 11
        elif s == QSA:
            if disable_voltage:
                self._go(SOD)            # 12
            elif enable_op and not self.qsa_auto:
                self._go(OE)             # 16

    def _auto(self):
        if self.qsa_auto and self.state == QSA:
            if self.auto_delay >= 2:
                return                   # leaves with the next controlword write (see write_controlword)
            if self.auto_delay > 0:
                self.auto_delay -= 1
                return
            self._go(SOD)                # 12, automatic
            return
        if self.state in (NOT_READY, FRA):
            if self.auto_delay > 0:
                self.auto_delay -= 1
                return
            self._go(SOD if self.state == NOT_READY else FAULT)    # 1 / 14

    def statusword(self):
        self.reads += 1
        self._auto()
        m, v = PATTERN[self.state]
        extra = sx.fresh_int("sw_extra", 0, 0xFFFF)
        return (extra & (0xFFFF ^ m)) | v
