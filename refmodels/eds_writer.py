"""Independent EDS/DCF writer (CiA 306), used to produce texts from an object description.  Numeric
field values may be symbolic: they are rendered with format() so that the symbolic engine turns them
into number tokens; in concrete mode they are ordinary digits."""


def num(v, style="dec"):
    if style == "dec":
        return format(v, "d")
    if style == "hex":
        return "0x" + format(v, "X")
    if style == "hex4":
        return "0x" + format(v, "04X")
    if style == "hexl":
        return "0x" + format(v, "x")
    raise ValueError(style)


class Entry:
    """description of one variable (top-level or member)"""

    def __init__(self, name, index, sub=0, data_type=0x07, access="rw", pdo=None, default=None, default_text=None,
                 value=None, value_text=None, low=None, low_text=None, high=None, high_text=None, object_type="0x7",
                 factor=None, unit=None, description=None, storage=None, relative=False):
        self.name, self.index, self.sub = name, index, sub
        self.data_type, self.access, self.pdo = data_type, access, pdo
        self.default, self.default_text = default, default_text
        self.value, self.value_text = value, value_text
        self.low, self.low_text, self.high, self.high_text = low, low_text, high, high_text
        self.object_type = object_type
        self.factor, self.unit, self.description, self.storage = factor, unit, description, storage
        self.relative = relative
        self.dt_text = None


def entry_lines(e, dt_style="hex4"):
    out = ["ParameterName=%s" % e.name]
    if e.object_type is not None:
        out.append("ObjectType=%s" % e.object_type)
    out.append("DataType=%s" % (e.dt_text if e.dt_text is not None else num(e.data_type, dt_style)))
    out.append("AccessType=%s" % e.access)
    if e.default_text is not None:
        out.append("DefaultValue=%s" % e.default_text)
    if e.value_text is not None:
        out.append("ParameterValue=%s" % e.value_text)
    if e.low_text is not None:
        out.append("LowLimit=%s" % e.low_text)
    if e.high_text is not None:
        out.append("HighLimit=%s" % e.high_text)
    if e.pdo is not None:
        out.append("PDOMapping=%s" % (getattr(e, "pdo_text", None) or num(e.pdo)))
    if e.factor is not None:
        out.append("Factor=%s" % e.factor)
    if e.unit is not None:
        out.append("Unit=%s" % e.unit)
    if e.description is not None:
        out.append("Description=%s" % e.description)
    if e.storage is not None:
        out.append("StorageLocation=%s" % e.storage)
    return out


class Doc:
    def __init__(self):
        self.sections = []

    def section(self, name, lines):
        self.sections.append((name, list(lines)))

    def text(self):
        out = []
        for name, lines in self.sections:
            out.append("[%s]" % name)
            out.extend(lines)
            out.append("")
        return "\n".join(out) + "\n"

    # ---- objects ------------------------------------------------------------------------------
    def variable(self, e, dt_style="hex4"):
        self.section("%04X" % e.index, entry_lines(e, dt_style))

    def record(self, name, index, members, kind="0x9", sub_spelling="sub", storage=None):
        lines = ["ParameterName=%s" % name, "ObjectType=%s" % kind, "SubNumber=%d" % len(members)]
        if storage:
            lines.append("StorageLocation=%s" % storage)
        self.section("%04X" % index, lines)
        for m in members:
            self.section("%04X%s%X" % (index, sub_spelling, m.sub), entry_lines(m))

    def compact_array(self, name, index, n, template, names=None):
        lines = ["ParameterName=%s" % name, "ObjectType=0x8", "DataType=%s" % num(template.data_type, "hex4"),
                 "AccessType=%s" % template.access, "CompactSubObj=%d" % n]
        if template.default_text is not None:
            lines.append("DefaultValue=%s" % template.default_text)
        if template.pdo is not None:
            lines.append("PDOMapping=%s" % num(template.pdo))
        self.section("%04X" % index, lines)
        if names:
            self.section("%04XName" % index, ["NrOfEntries=%d" % len(names)] +
                         ["%d=%s" % (i + 1, nm) for i, nm in enumerate(names)])
