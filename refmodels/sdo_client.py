"""Reference SDO client (CiA 301 7.2.4.3), independent of canopen/sdo/client.py.  Drives uploads and
downloads frame by frame and *checks* each server response (obligations via sx.prove)."""
from symx import api as sx


def le32(v):
    return [sx.byte_of(v, i) for i in range(4)]


def u32(b):
    return b[0] | (b[1] << 8) | (b[2] << 16) | (b[3] << 24)


class Abort:
    def __init__(self, code, index, sub):
        self.code, self.index, self.sub = code, index, sub


class RefClient:
    def __init__(self, deliver, tag="C02"):
        """deliver(frame) -> list of response frames the server emitted while handling it"""
        self.deliver = deliver
        self.tag = tag
        self.log = []

    def _p(self, cond, what):
        return sx.prove(cond, "server response: " + what, "%s/resp/%s" % (self.tag, what))

    def xfer(self, req):
        frame = sx.mkbytes(req)
        resps = self.deliver(frame)
        self.log.append((frame, list(resps)))
        self._p(len(resps) == 1, "exactly-one-response")
        if len(resps) != 1:
            return None
        r = sx.items(resps[0])
        self._p(len(r) == 8, "8-bytes")
        if len(r) != 8:
            return None
        return r

    @staticmethod
    def _is_abort(r):
        return r[0] == 0x80

    def _abort(self, r):
        return Abort(u32(r[4:8]), r[1] | (r[2] << 8), r[3])

    # ---- upload ----------------------------------------------------------------------------
    def upload(self, index, sub):
        """returns (items, announced_size) or an Abort"""
        mux = [sx.byte_of(index, 0), sx.byte_of(index, 1), sub]
        r = self.xfer([0x40] + mux + [0, 0, 0, 0])
        if r is None:
            return None
        if self._is_abort(r):
            return self._abort(r)
        cmd = r[0]
        self._p((cmd >> 5) == 2, "upload-initiate-scs")
        self._p((cmd & 0x10) == 0, "upload-initiate-reserved-bit")
        self._p((r[1] == mux[0]) & (r[2] == mux[1]) & (r[3] == mux[2]), "multiplexer-echoed")
        e, s, n = (cmd >> 1) & 1, cmd & 1, (cmd >> 2) & 3
        if e == 1:
            if s == 1:
                data = r[4:8 - n]
                self._p(sx.all_([b == 0 for b in r[8 - n:8]]), "expedited-padding-zero")
                return data, 4 - n
            self._p(n == 0, "expedited-n-without-s")
            return r[4:8], None
        self._p(n == 0, "segmented-initiate-n")
        announced = u32(r[4:8]) if s == 1 else None
        if s == 0:
            self._p(sx.all_([b == 0 for b in r[4:8]]), "initiate-reserved-zero")
        data = []
        t = 0
        guard = 0
        while True:
            guard += 1
            if guard > 400:
                sx.fail("server response: upload never ends", "%s/resp/endless-upload" % self.tag)
                return None
            r = self.xfer([0x60 | (t << 4), 0, 0, 0, 0, 0, 0, 0])
            if r is None:
                return None
            if self._is_abort(r):
                return self._abort(r)
            cmd = r[0]
            self._p((cmd >> 5) == 0, "upload-segment-scs")
            self._p(((cmd >> 4) & 1) == t, "toggle")
            n = (cmd >> 1) & 7
            c = cmd & 1
            seg = r[1:8 - n]
            self._p(sx.all_([b == 0 for b in r[8 - n:8]]), "segment-padding-zero")
            data.extend(seg)
            if announced is not None:
                # last flag exactly when the data is exhausted
                done = len(data) >= announced
                self._p(done if c == 1 else sx.not_(done), "last-flag-when-exhausted")
            t ^= 1
            if c == 1:
                break
        if announced is not None:
            self._p(announced == len(data), "announced-size-is-true-size")
        return data, announced

    # ---- download --------------------------------------------------------------------------
    def download(self, index, sub, data, mode="auto", last="full"):
        """mode: exp-size | exp-nosize | seg-size | seg-nosize; returns None on success or an Abort"""
        data = list(data)
        mux = [sx.byte_of(index, 0), sx.byte_of(index, 1), sub]
        n = len(data)
        if mode == "auto":
            mode = "exp-size" if 1 <= n <= 4 else "seg-size"
        if mode == "exp-size":
            assert 1 <= n <= 4
            req = [0x23 | ((4 - n) << 2)] + mux + data + [0] * (4 - n)
        elif mode == "exp-nosize":
            assert n == 4
            req = [0x22] + mux + data
        elif mode == "seg-size":
            req = [0x21] + mux + le32(n)
        else:
            req = [0x20] + mux + [0, 0, 0, 0]
        r = self.xfer(req)
        if r is None:
            return None
        if self._is_abort(r):
            return self._abort(r)
        self._p(r[0] == 0x60, "download-initiate-scs")
        self._p((r[1] == mux[0]) & (r[2] == mux[1]) & (r[3] == mux[2]), "multiplexer-echoed")
        self._p(sx.all_([b == 0 for b in r[4:8]]), "download-response-reserved-zero")
        if mode.startswith("exp"):
            return None
        t = 0
        pos = 0
        while True:
            chunk = data[pos:pos + 7]
            pos += len(chunk)
            fin = pos >= n
            c = 1 if fin and (last == "full" or not chunk) else 0
            req = [(t << 4) | ((7 - len(chunk)) << 1) | c] + chunk + [0] * (7 - len(chunk))
            r = self.xfer(req)
            if r is None:
                return None
            if self._is_abort(r):
                return self._abort(r)
            self._p((r[0] >> 5) == 1, "download-segment-scs")
            self._p(((r[0] >> 4) & 1) == t, "toggle")
            self._p((r[0] & 0x0F) == 0, "download-segment-reserved-bits")
            self._p(sx.all_([b == 0 for b in r[1:8]]), "download-segment-reserved-zero")
            t ^= 1
            if c:
                return None
