"""Reference SDO server (CiA 301 7.2.4.3), written from the standard and independent of
canopen/sdo/server.py.  It *checks* every client request (obligations via sx.prove) and answers in a
configurable, standard-conformant style.  Frames are sequences of 8 byte items (int | symbolic)."""
from symx import api as sx


def _u16(lo, hi):
    return lo | (hi << 8)


def _u32(b):
    return b[0] | (b[1] << 8) | (b[2] << 16) | (b[3] << 24)


def le32(v):
    return [sx.byte_of(v, i) for i in range(4)]


class RefServer:
    """One SDO server channel.

    upload_style: 'exp-size' | 'exp-nosize' | 'seg-size' | 'seg-nosize'
    last_style:   'full' (last data segment carries c=1) | 'empty' (an empty closing segment follows)
    seg_len:      bytes per upload segment (1..7)
    """

    def __init__(self, tag="C01"):
        self.tag = tag
        self.store = {}            # (index, sub) concrete key per transfer id -> committed items
        self.commits = []          # [(index, sub, items)]
        self.state = "idle"
        self.toggle = 0
        self.buf = []
        self.declared = None
        self.mux = None
        self.expect_mux = None     # (index, sub) the harness is about to address (may be symbolic)
        self.value = []            # value served on upload
        self.upload_style = "seg-size"
        self.last_style = "full"
        self.seg_len = 7
        self.requests = []
        self.check = True          # False: permissive peer (no obligations on the requests)
        self.finished = 0
        self.aborts_seen = []

    # ---- obligations on frames -----------------------------------------------------------
    def _p(self, cond, what):
        if not self.check:
            return
        sx.prove(cond, "client request: " + what, "%s/frame/%s" % (self.tag, what))

    def on_request(self, frame):
        """returns the list of response frames (0 or 1)"""
        f = sx.items(frame)
        self.requests.append(frame)
        self._p(len(f) == 8, "8-bytes")
        if len(f) != 8:
            return []
        cmd = f[0]
        ccs = cmd >> 5
        if ccs == 1:
            return self._init_download(f)
        if ccs == 0:
            return self._download_segment(f)
        if ccs == 2:
            return self._init_upload(f)
        if ccs == 3:
            return self._upload_segment(f)
        if ccs == 4:
            self.aborts_seen.append((f[1] | (f[2] << 8), f[3], _u32(f[4:8])))
            self.state = "idle"
            return []
        if self.check:
            sx.fail("client request: unexpected command specifier", "%s/frame/ccs" % self.tag)
        return []

    def _check_mux(self, f):
        idx = f[1] | (f[2] << 8)
        sub = f[3]
        if self.expect_mux is not None:
            ei, es = self.expect_mux
            self._p((idx == ei) & (sub == es), "multiplexer")
        return idx, sub

    def _init_download(self, f):
        cmd = f[0]
        self._p(self.state == "idle", "initiate-while-busy")
        idx, sub = self._check_mux(f)
        self.mux = (idx, sub)
        e = (cmd >> 1) & 1
        s = cmd & 1
        n = (cmd >> 2) & 3
        self._p((cmd & 0x10) == 0, "reserved-bit")
        if e == 1:
            if s == 1:
                data = f[4:8 - n]
                self._p(sx.all_([b == 0 for b in f[8 - n:8]]), "expedited-padding-zero")
            else:
                self._p(n == 0, "expedited-n-without-s")
                data = f[4:8]
            self.state = "idle"
            if self.refuse_commit:
                # the device refuses the value (e.g. out of range): abort instead of the confirmation
                return [sx.mkbytes([0x80, f[1], f[2], f[3]] + le32(0x06090030))]
            self._commit(idx, sub, data)
        else:
            self._p(n == 0, "segmented-initiate-n")
            if s == 1:
                self.declared = _u32(f[4:8])
            else:
                self.declared = None
                self._p(sx.all_([b == 0 for b in f[4:8]]), "initiate-reserved-zero")
            self.state = "download"
            self.toggle = 0
            self.buf = []
        return [sx.mkbytes([0x60, f[1], f[2], f[3], 0, 0, 0, 0])]

    def _download_segment(self, f):
        cmd = f[0]
        self._p(self.state == "download", "segment-outside-transfer")
        if self.state != "download":
            return [sx.mkbytes([0x80, 0, 0, 0] + le32(0x05040001))]
        t = (cmd >> 4) & 1
        n = (cmd >> 1) & 7
        c = cmd & 1
        self._p(t == self.toggle, "toggle")
        data = f[1:8 - n]
        self._p(sx.all_([b == 0 for b in f[8 - n:8]]), "segment-padding-zero")
        self.buf.extend(data)
        resp = [sx.mkbytes([0x20 | (self.toggle << 4), 0, 0, 0, 0, 0, 0, 0])]
        self.toggle ^= 1
        if c == 1:
            if self.declared is not None:
                self._p(self.declared == len(self.buf), "declared-size-equals-sent")
            self.state = "idle"
            if self.refuse_commit:
                idx, sub = self.mux
                return [sx.mkbytes([0x80, sx.byte_of(idx, 0), sx.byte_of(idx, 1), sub] + le32(0x06090030))]
            self._commit(self.mux[0], self.mux[1], self.buf)
        else:
            # a non-final segment must carry data (an empty non-final segment is never useful and the
            # standard's n is "bytes that do not contain data": 7 is only sensible on the last one)
            pass
        return resp

    refuse_commit = False

    def _commit(self, idx, sub, items):
        self.commits.append((idx, sub, list(items)))
        self.finished += 1

    def _init_upload(self, f):
        self._p(self.state == "idle", "initiate-while-busy")
        self._p(f[0] == 0x40, "upload-initiate-command")
        self._p(sx.all_([b == 0 for b in f[4:8]]), "upload-initiate-reserved-zero")
        self._check_mux(f)
        val = self.value
        st = self.upload_style
        head = [f[1], f[2], f[3]]
        if st == "exp-size":
            assert 1 <= len(val) <= 4
            self.finished += 1
            return [sx.mkbytes([0x43 | ((4 - len(val)) << 2)] + head + list(val) + [0] * (4 - len(val)))]
        if st == "exp-nosize":
            assert len(val) == 4
            self.finished += 1
            return [sx.mkbytes([0x42] + head + list(val))]
        self.state = "upload"
        self.toggle = 0
        self.buf = list(val)
        if st == "seg-size":
            return [sx.mkbytes([0x41] + head + le32(len(val)))]
        return [sx.mkbytes([0x40] + head + [0, 0, 0, 0])]

    def _upload_segment(self, f):
        cmd = f[0]
        self._p(self.state == "upload", "segment-outside-transfer")
        if self.state != "upload":
            return [sx.mkbytes([0x80, 0, 0, 0] + le32(0x05040001))]
        t = (cmd >> 4) & 1
        self._p((cmd & 0x0F) == 0, "upload-segment-reserved-bits")
        self._p(sx.all_([b == 0 for b in f[1:8]]), "upload-segment-reserved-zero")
        self._p(t == self.toggle, "toggle")
        chunk = self.buf[:self.seg_len]
        del self.buf[:self.seg_len]
        last = not self.buf
        c = 1 if last and (self.last_style == "full" or not chunk) else 0
        if last and self.last_style == "empty" and chunk:
            c = 0          # an empty closing segment follows
        resp = [sx.mkbytes([(self.toggle << 4) | ((7 - len(chunk)) << 1) | c] + chunk + [0] * (7 - len(chunk)))]
        self.toggle ^= 1
        if c:
            self.state = "idle"
            self.finished += 1
        return resp
