"""C07 - A disturbed SDO transfer fails loudly and does not poison the next one."""
from symx import api as sx
from harness import common as C
from harness.sdo_rig import ClientRig, ServerRig
from refmodels.sdo_server import RefServer
from refmodels.block_server import BlockDownloadServer, BlockUploadServer

CLAIMED = True

TIMEOUT_ABORT = [0x80, 0, 0, 0, 0x00, 0x00, 0x04, 0x05]
FAULTS = ["drop", "abort", "toggle", "scs", "mux", "dup", "stale-between"]


def _exc():
    return sx.mod("canopen.sdo.exceptions")


class MultiServer:
    """dispatches to the reference server of the transfer in progress (segmented/expedited or block)"""

    def __init__(self):
        self.plain = RefServer("C07")
        self.current = self.plain
        self.check = True

    def use(self, srv):
        self.current = srv

    def on_request(self, frame):
        return self.current.on_request(frame)


class FaultRig(ClientRig):
    def __init__(self, server, step, fault):
        ClientRig.__init__(self, server)
        self.fstep, self.fault = step, fault
        self.exchange = 0
        self.injected = None
        self.held = []            # responses withheld by a "drop" (delivered late in the stale-after scenario)
        self.all_sent = []

    def send_message(self, can_id, data, remote=False):
        self.sent.append((can_id, data))
        resps = self.server.on_request(data)
        if resps:
            k = self.exchange
            self.exchange += 1
            if k >= self.fstep >= 0 and self.injected is None:
                # the first exchange at or after `fstep` where the fault is applicable
                resps = self._inject(data, resps)
        for r in resps:
            self.client.on_response(self.client.tx_cobid, r, 0.0)

    def _quiet(self):
        srv = self.server.current
        srv.check = False

    def _applicable(self, req, r0):
        """a wrong multiplexer only exists on frames that carry one (initiate responses); a toggle bit
        only on segment responses of segmented transfers"""
        q0 = sx.items(req)[0]
        block = not isinstance(self.server.current, RefServer)
        if self.fault == "mux":
            ccs = q0 >> 5
            if block:
                return self.exchange == 1          # first exchange of the block transfer = initiate
            return ccs in (1, 2)
        if self.fault == "toggle":
            return (not block) and (q0 >> 5) in (0, 3)
        if self.fault == "drop1":
            return block and self._nresps > 1     # one segment of a block-upload sub-block goes missing
        return True

    def _inject(self, req, resps):
        f = self.fault
        r0 = sx.items(resps[0])
        self._nresps = len(resps)
        if not self._applicable(req, r0):
            return resps
        self.injected = f
        self.sent_at_fault = len(self.sent)
        self.faulted_request = sx.items(req)
        self._quiet()
        if f == "drop":
            self.held = list(resps)
            return []
        if f == "drop1":
            i = sx.choice(len(resps), "lost_segment")
            self.held = [resps[i]]
            return list(resps[:i]) + list(resps[i + 1:])
        if f == "abort":
            code = sx.fresh_int("abort_code", 0, 0xFFFFFFFF)
            self.abort_code = code
            return [sx.mkbytes([0x80, r0[1], r0[2], r0[3]] + [sx.byte_of(code, i) for i in range(4)])]
        if f == "toggle":
            return [sx.mkbytes([r0[0] ^ 0x10] + list(r0[1:]))] + list(resps[1:])
        if f == "scs":
            b = sx.fresh_byte("bad_cmd")
            sx.assume((b & 0xE0) != (r0[0] & 0xE0))
            sx.assume(b != 0x80)
            return [sx.mkbytes([b] + list(r0[1:]))] + list(resps[1:])
        if f == "mux":
            i2 = sx.fresh_int("idx2", 0, 0xFFFF)
            s2 = sx.fresh_int("sub2", 0, 0xFF)
            sx.assume(((r0[1] | (r0[2] << 8)) != i2) | (r0[3] != s2))
            return [sx.mkbytes([r0[0], i2 & 0xFF, i2 >> 8, s2] + list(r0[4:]))] + list(resps[1:])
        if f == "dup":
            return [resps[0], resps[0]] + list(resps[1:])
        if f == "stale-between":
            return [self._stale(r0)] + list(resps)
        raise AssertionError(f)

    def _stale(self, awaited):
        """a legal response left over from an earlier transfer: different multiplexer or different phase;
        never bit-identical in form to the awaited one"""
        kind = sx.choice(5, "stale_kind") if getattr(self, "only_stale", None) is None else self.only_stale
        if kind == 4 and not bool((awaited[0] >> 5) == 2):
            kind = 0
        if kind == 4:
            # the late answer to an earlier upload of the *same* object, when it still held a value of another length:
            # same form as the awaited initiate response, another announced size.  The client cannot tell it from the
            # real one at this point; what follows does not fit, and it must not end in success with other data.
            sz = sx.fresh_int("st_size", 5, 60)
            sx.reach("stale-same-object")
            return sx.mkbytes([0x41, awaited[1], awaited[2], awaited[3], sz, 0, 0, 0])
        if kind == 0:       # expedited upload response for another multiplexer
            i2 = sx.fresh_int("st_idx", 0, 0xFFFF)
            s2 = sx.fresh_int("st_sub", 0, 0xFF)
            sx.assume(((awaited[1] | (awaited[2] << 8)) != i2) | (awaited[3] != s2))
            d = sx.items(sx.fresh_bytes("st_data", 4))
            fr = [0x43, i2 & 0xFF, i2 >> 8, s2] + d
        elif kind == 1:     # upload segment with the toggle the client does not expect now
            d = sx.items(sx.fresh_bytes("st_seg", 7))
            t = (awaited[0] & 0x10) ^ 0x10
            fr = [t | sx.ite(sx.fresh_bool("st_last"), 1, 0)] + d
        elif kind == 2:     # download initiate response for another multiplexer
            i2 = sx.fresh_int("st_idx", 0, 0xFFFF)
            s2 = sx.fresh_int("st_sub", 0, 0xFF)
            if bool(awaited[0] != 0x80):
                sx.assume(((awaited[1] | (awaited[2] << 8)) != i2) | (awaited[3] != s2))
            fr = [0x60, i2 & 0xFF, i2 >> 8, s2, 0, 0, 0, 0]
        else:               # download segment acknowledge
            fr = [0x20 | sx.ite(sx.fresh_bool("st_tog"), 0x10, 0), 0, 0, 0, 0, 0, 0, 0]
        same_form = sx.all_([a == b for a, b in zip(fr, awaited)]) if kind != 3 else ((fr[0] & 0xE0) == (awaited[0] & 0xE0))
        sx.assume(sx.not_(same_form))
        return sx.mkbytes(fr)


def _run(rig, ms, kind, n, idx, sub, payload, value):
    """perform one transfer; returns ('ok', data) | ('err', exception)"""
    E = _exc()
    client = rig.client
    try:
        if kind == "upload":
            ms.use(ms.plain)
            ms.plain.value = sx.items(value)
            ms.plain.upload_style = "exp-size" if 1 <= n <= 4 else "seg-size"
            ms.plain.expect_mux = (idx, sub)
            return ("ok", client.upload(idx, sub))
        if kind == "upload-nosize":
            ms.use(ms.plain)
            ms.plain.value = sx.items(value)
            ms.plain.upload_style = "seg-nosize"
            ms.plain.expect_mux = (idx, sub)
            return ("ok", client.upload(idx, sub))
        if kind == "download":
            ms.use(ms.plain)
            ms.plain.expect_mux = (idx, sub)
            client.download(idx, sub, payload)
            return ("ok", None)
        if kind == "download-nosize":
            ms.use(ms.plain)
            ms.plain.expect_mux = (idx, sub)
            fp = client.open(idx, sub, "wb", buffering=0, size=None)
            try:
                pos = 0
                while pos < n:
                    pos += fp.write(payload[pos:pos + 7])
            finally:
                fp.close()
            return ("ok", None)
        if kind in ("block-upload", "block-upload-nocrc"):
            srv = BlockUploadServer(sx.items(value), crc=(kind == "block-upload"), tag="C07")
            srv.expect_mux = (idx, sub)
            ms.use(srv)
            fp = client.open(idx, sub, "rb", block_transfer=True)
            try:
                data = fp.read()
            finally:
                fp.close()
            return ("ok", data)
        if kind in ("block-download", "block-download-nocrc"):
            srv = BlockDownloadServer([3], crc=(kind == "block-download"), tag="C07")
            srv.expect_mux = (idx, sub)
            ms.use(srv)
            fp = client.open(idx, sub, "wb", size=n, block_transfer=True)
            try:
                fp.write(payload)
            finally:
                fp.close()
            return ("ok", None)
    except (E.SdoCommunicationError, E.SdoAbortedError) as e:
        return ("err", e)
    raise AssertionError(kind)


def _committed(ms, kind):
    srv = ms.current
    return srv.commits[-1] if srv.commits else None


def disturbed(kind, n, step, fault, follow="upload"):
    E = _exc()
    ms = MultiServer()
    rig = FaultRig(ms, step, fault)
    idx = sx.fresh_int("idx", 0, 0xFFFF)
    sub = sx.fresh_int("sub", 0, 0xFF)
    payload = sx.fresh_bytes("p", n)
    value = sx.fresh_bytes("v", n)
    tag = "C07/%s/%s" % (kind, fault)
    ncommit0 = 0
    res = _run(rig, ms, kind, n, idx, sub, payload, value)
    if rig.injected is None:
        # the transfer has fewer than `step`+1 exchanges: nothing was disturbed
        sx.prove(res[0] == "ok", "undisturbed transfer failed", tag + "/undisturbed")
        sx.reach("no-fault-at-this-step")
        return
    sx.observe("outcome", res[0] if res[0] == "ok" else C.exc_name(res[1]))
    if res[0] == "ok":
        if "upload" in kind:
            data = res[1]
            sx.prove(len(sx.items(data)) == n and sx.eq_bytes(data, value) is not False,
                     "call returned normally with data of another length", tag + "/wrong-length")
            if len(sx.items(data)) == n:
                sx.prove(sx.eq_bytes(data, value), "call returned normally with different data", tag + "/wrong-data")
        else:
            c = _committed(ms, kind)
            sx.prove(c is not None, "download reported success but the server committed nothing", tag + "/no-commit")
            if c is not None:
                sx.prove(len(c[2]) == n and sx.eq_bytes(sx.mkbytes(c[2]), payload) is not False,
                         "download reported success, server holds another length", tag + "/wrong-length")
                if len(c[2]) == n:
                    sx.prove(sx.eq_bytes(sx.mkbytes(c[2]), payload), "download reported success, server holds different data",
                             tag + "/wrong-data")
        sx.reach("completed-despite-fault")
    else:
        e = res[1]
        if fault == "abort" and isinstance(e, E.SdoAbortedError) and not kind.startswith("block"):
            sx.prove(e.code == rig.abort_code, "aborted-transfer error exposes the received code", tag + "/abort-code")
        # block transfers: the frames the client sends as request/response exchanges (initiate and end of a block
        # download, initiate of a block upload) behave like any other request; inside a sub-block there is no request
        q0 = rig.faulted_request[0]
        block_req = (kind.startswith("block-download") and bool(((q0 & 0xE1) == 0xC0) | ((q0 & 0xE3) == 0xC1))) or \
            (kind.startswith("block-upload") and bool((q0 & 0xE3) == 0xA0))
        if fault == "drop" and (not kind.startswith("block") or block_req):
            after = [sx.items(d) for c, d in rig.sent[rig.sent_at_fault:]]
            hit = any(len(fr) == 8 and sx.all_([a == b for a, b in zip(fr, TIMEOUT_ABORT)]) is True for fr in after)
            sx.prove(hit, "lost response must make the client send the time-out abort 0x05040000",
                     tag + "/timeout-abort")
            sx.reach("timeout-abort")
        sx.reach("failed-loudly")
    # ---- the next transfer on the same client and server completes correctly
    if fault == "drop" and follow == "late":
        # the withheld response arrives after the transfer has timed out
        for r in rig.held:
            rig.client.on_response(rig.client.tx_cobid, r, 0.0)
        sx.reach("stale-after-timeout")
    rig.fstep = -1
    ms.plain.state = "idle"
    ms.plain.check = False
    v2 = sx.fresh_bytes("v2", 9)
    r2 = _run(rig, ms, "upload", 9, 0x2345, 6, None, v2)
    sx.prove(r2[0] == "ok", "the next upload failed", tag + "/next-upload-failed")
    if r2[0] == "ok":
        sx.prove(sx.eq_bytes(r2[1], v2), "the next upload returned wrong data", tag + "/next-upload-data")
    p2 = sx.fresh_bytes("p2", 3)
    nc = len(ms.plain.commits)
    r3 = _run(rig, ms, "download", 3, 0x2346, 1, p2, None)
    sx.prove(r3[0] == "ok" and len(ms.plain.commits) == nc + 1, "the next download failed", tag + "/next-download-failed")
    if r3[0] == "ok" and len(ms.plain.commits) == nc + 1:
        sx.prove(sx.eq_bytes(sx.mkbytes(ms.plain.commits[-1][2]), p2), "the next download stored wrong data",
                 tag + "/next-download-data")
    sx.reach("follow-up")


def refused_with_stale(n):
    """the device refuses the value of a download (abort at the confirming step) and, just before that abort, a stale
    confirmation of the *other* kind of download step arrives (left over from a timed-out transfer): the call must
    not report success"""
    E = _exc()
    ms = MultiServer()
    ms.plain.refuse_commit = True
    rig = FaultRig(ms, (0 if n <= 4 else 1 + (n - 1) // 7), "stale-between")
    rig.only_stale = 2 if n > 4 else 3      # 0x60 while a segment confirmation is awaited; 0x20/0x30 at the initiate
    idx = sx.fresh_int("idx", 0, 0xFFFF)
    sub = sx.fresh_int("sub", 0, 0xFF)
    payload = sx.fresh_bytes("p", n)
    res = _run(rig, ms, "download", n, idx, sub, payload, None)
    tag = "C07/refused-with-stale/%s" % ("expedited" if n <= 4 else "segmented")
    sx.prove(rig.injected is not None, "stale frame not injected", tag + "/harness")
    sx.prove(res[0] == "err", "a refused download was reported as successful", tag + "/reported-success")
    sx.prove(len(ms.plain.commits) == 0, "refusing server committed", tag + "/harness")
    sx.reach("refused-with-stale")


def stale_before(kind, n, k=1):
    """k stale frames sit in the client's queue before the request is sent: they must be discarded"""
    ms = MultiServer()
    rig = FaultRig(ms, -1, None)
    idx = sx.fresh_int("idx", 0, 0xFFFF)
    sub = sx.fresh_int("sub", 0, 0xFF)
    for i in range(k):
        rig.client.on_response(rig.client.tx_cobid, sx.fresh_bytes("stale%d" % i, 8), 0.0)
    payload = sx.fresh_bytes("p", n)
    value = sx.fresh_bytes("v", n)
    res = _run(rig, ms, kind, n, idx, sub, payload, value)
    tag = "C07/stale-before/%s" % kind
    sx.prove(res[0] == "ok", "a stale frame queued before the request broke the transfer", tag + "/failed")
    if res[0] == "ok" and kind == "upload":
        sx.prove(sx.eq_bytes(res[1], value), "stale frame changed the uploaded data", tag + "/data")
    if res[0] == "ok" and kind == "download":
        sx.prove(ms.plain.commits and sx.eq_bytes(sx.mkbytes(ms.plain.commits[-1][2]), payload) is not False,
                 "stale frame changed the downloaded data", tag + "/data")
    sx.reach("stale-before")


def real_server_followup(fault, step):
    """real client <-> real server: a disturbed segmented transfer, then a correct one"""
    E = _exc()
    from harness.c02 import small_od
    srig = ServerRig(small_od(), node_id=2)
    SdoClient = sx.mod("canopen.sdo.client").SdoClient
    client = SdoClient(0x602, 0x582, C.odmod().ObjectDictionary())
    state = dict(k=0, done=False)

    class Bus:
        def send_message(self, cid, data, remote=False):
            resps = srig.deliver(data)
            if resps:
                k = state["k"]
                state["k"] += 1
                if k == step and not state["done"]:
                    state["done"] = True
                    r0 = sx.items(resps[0])
                    if fault == "drop":
                        resps = []
                    elif fault == "toggle":
                        resps = [sx.mkbytes([r0[0] ^ 0x10] + list(r0[1:]))]
                    elif fault == "scs":
                        b = sx.fresh_byte("bad_cmd")
                        sx.assume(((b & 0xE0) != (r0[0] & 0xE0)) & (b != 0x80))
                        resps = [sx.mkbytes([b] + list(r0[1:]))]
            for r in resps:
                client.on_response(0x582, r, 0.0)
    client.network = Bus()
    p = sx.fresh_bytes("p", 10)
    try:
        client.download(0x2000, 0, p)
        first = "ok"
    except (E.SdoCommunicationError, E.SdoAbortedError):
        first = "err"
    state["done"] = True
    p2 = sx.fresh_bytes("p2", 12)
    tag = "C07/real-server/%s" % fault
    try:
        client.download(0x2000, 0, p2)
        got = client.upload(0x2000, 0)
    except (E.SdoCommunicationError, E.SdoAbortedError) as e:
        sx.fail("transfer after a disturbed one failed on the real server (%s)" % C.exc_name(e), tag + "/next-failed")
        return
    sx.prove(sx.eq_bytes(got, p2), "transfer after a disturbed one returned wrong data", tag + "/next-data")
    sx.reach("real-server")


KINDS = [("upload", (1, 4, 5, 7, 8, 14, 15)), ("upload-nosize", (5, 14)), ("download", (1, 4, 5, 7, 8, 14, 15)),
         ("download-nosize", (5, 14)), ("block-upload", (5, 15, 50)), ("block-download", (5, 15, 50)),
         ("block-upload-nocrc", (15, 50)), ("block-download-nocrc", (15, 50))]
KINDS_T = [("upload", (0, 2, 3, 6, 9, 10, 11, 12, 13, 16, 20, 21, 22, 28, 29, 35, 36)),
           ("download", (0, 2, 3, 6, 9, 10, 11, 12, 13, 16, 20, 21, 22, 28, 29, 35, 36)),
           ("upload-nosize", (0, 1, 4, 7, 8, 15, 21, 22)), ("download-nosize", (0, 1, 4, 7, 8, 15, 21, 22)),
           ("block-upload", (1, 7, 8, 14, 21, 22, 49, 100)), ("block-download", (1, 7, 8, 14, 21, 22, 49, 100))]


def jobs(tier):
    out = []
    kinds = KINDS + (KINDS_T if tier == "thorough" else [])
    for kind, lens in kinds:
        for n in lens:
            nsteps = 1 + (-(-n // 7) if n > 4 or "nosize" in kind or kind.startswith("block") else 0) + 2
            if kind.startswith("block"):
                nsteps = 3 + n // 21
            for step in range(nsteps):
                for fault in FAULTS + (["drop1"] if kind.startswith("block-upload") else []):
                    out.append(dict(func="disturbed", params=dict(kind=kind, n=n, step=step, fault=fault), weight=n + 5))
                out.append(dict(func="disturbed", params=dict(kind=kind, n=n, step=step, fault="drop", follow="late"),
                                weight=n + 5))
    for n in (2, 4, 9, 15):
        out.append(dict(func="refused_with_stale", params=dict(n=n)))
    for kind in ("upload", "download"):
        for n in (3, 9):
            for k in (1, 2, 3):
                out.append(dict(func="stale_before", params=dict(kind=kind, n=n, k=k), weight=50))
    for fault in ("drop", "toggle", "scs"):
        for step in range(0, 4):
            out.append(dict(func="real_server_followup", params=dict(fault=fault, step=step)))
    return out


META = dict(
    level_text="Bounded symbolic execution of the real SdoClient (expedited, segmented and block transfers in both "
               "directions) behind a fault-injecting bus in front of the reference servers: the disturbed protocol step is "
               "enumerated, the disturbance is symbolic within its kind (abort code: all 2^32; wrong command specifier: any "
               "byte with another scs; wrong multiplexer: any other; stale frame: a legal response of another transfer / "
               "phase with symbolic content), payloads symbolic; after every disturbed transfer an undisturbed upload and "
               "download on the same client and server must complete correctly; plus follow-up against the repo's real "
               "SdoServer.",
    level_note="One disturbance per transfer. A stale response that is bit-identical in form to the awaited one cannot be "
               "told apart by any SDO client and is excluded. OS-thread timing is outside: a lost response is a queue "
               "time-out under the fake clock.",
    bounds=dict(quick="transfers: upload / download (lengths 1,4,5,7,8,14,15), size-not-indicated variants (5,14), block "
                      "upload/download (5,15,50 bytes, block size 3 for download); every step x {dropped, abort(code sym), "
                      "toggle flipped, wrong scs (sym), wrong multiplexer (sym), duplicated, stale frame between request "
                      "and response (sym), late response after a time-out}; stale frame before the request (any 8 bytes)",
                thorough="adds 17 more lengths for upload/download, 8 more for the size-not-indicated and block variants (block transfers up to 100 bytes)"),
    outside_bounds=["more than one disturbance per transfer", "stale frames identical in form to the awaited response",
                    "the time-out abort frame in block transfers (not promised by the block streams; see findings)",
                    "OS-thread timing"],
    assumptions=["MAX_RETRIES = 1 (library default)"],
    stubs=["queue (time-out = empty queue)", "time", "struct", "io model", "binascii.crc_hqx model", "logging"],
    required_reach=["stale-same-object", "refused-with-stale", "failed-loudly", "completed-despite-fault", "timeout-abort", "follow-up", "stale-after-timeout",
                    "stale-before", "real-server", "no-fault-at-this-step"],
    limits=dict(quick=dict(max_decisions=50000), thorough=dict(max_decisions=50000)),
    validate_every=dict(quick=4, thorough=20),
    max_validate=dict(quick=6, thorough=6),
)
