"""C17 - Periodic transmissions run exactly when and with what the API state says."""
from symx import api as sx
from harness import common as C

CLAIMED = True

LOCAL_ID = 5
REMOTE_ID = 7
PDO_COB = 0x185
CMD_TO_STATE = {1: 5, 2: 4, 80: 80, 96: 96, 128: 127, 129: 0, 130: 0}
NAME_TO_CMD = {"OPERATIONAL": 1, "STOPPED": 2, "SLEEP": 80, "STANDBY": 96, "PRE-OPERATIONAL": 128,
               "INITIALISING": 129, "RESET": 129, "RESET COMMUNICATION": 130}


class Rig:
    def __init__(self, modifiable):
        from symx.models import can_model
        netmod = sx.mod("canopen.network")
        self.bus = can_model.BusABC(modifiable=modifiable)
        self.bus.shutdown = lambda: None          # the library itself must stop its tasks
        self.net = netmod.Network(self.bus)
        od = C.typed_od(with_pdo=True, extra=[C.mkvar("hb", 0x1017, 0, C.U16, "rw", default=0)])
        self.local = sx.mod("canopen.node.local").LocalNode(LOCAL_ID, od)
        self.net.add_node(self.local)
        od2 = C.typed_od(with_pdo=True)
        self.remote = sx.mod("canopen.node.remote").RemoteNode(REMOTE_ID, od2)
        self.net.add_node(self.remote)
        m = self.local.tpdo[1]
        m.clear()
        self.var = m.add_variable(C.TYPE_INDEX[0x06])      # one UNSIGNED16
        self.nib = m.add_variable(C.TYPE_INDEX[0x05], 0, 4)   # and a 4-bit field (bit-field code path)
        m.cob_id = PDO_COB
        m.enabled = True
        m.subscribe()
        self.map = m
        # a second PDO on the remote node (for disconnect)
        m2 = self.remote.rpdo[1]
        m2.clear()
        m2.add_variable(C.TYPE_INDEX[0x05])
        m2.cob_id = 0x207
        m2.enabled = True
        self.map2 = m2
        # reference state
        self.ref = dict(sync=None, pdo=None, pdo2=None, hb=None, guard=None)   # None | dict(period=..)
        self.sync_period = None
        self.pdo_period = None
        self.hb_state = 0
        self.disconnected = False

    def live(self, arb_id, remote=False):
        return [t for t in self.bus.tasks if t.live and bool(t.snapshot[0] == arb_id)
                and bool(t.snapshot[2]) == remote]


def _data_items(d):
    if d is None:
        return []
    return sx.items(d) if not isinstance(d, list) else list(d)


def check(rig, tag):
    """after every call: per producer at most one live task, exactly one with the right content iff
    the reference says running"""
    specs = [
        ("sync", 0x80, False, lambda: []),
        ("pdo", PDO_COB, False, lambda: sx.items(rig.map.data)),
        ("pdo2", 0x207, False, lambda: sx.items(rig.map2.data)),
        ("hb", 0x700 + LOCAL_ID, False, lambda: [rig.hb_state]),
        ("guard", 0x700 + REMOTE_ID, True, lambda: None),
    ]
    obs = []
    for name, arb, remote, payload in specs:
        lv = rig.live(arb, remote)
        want = rig.ref[name]
        obs.append((name, len(lv)))
        sx.prove(len(lv) <= 1, "more than one live task for %s" % name, "%s/%s/leak" % (tag, name))
        if want is None:
            sx.prove(len(lv) == 0, "%s task running although stopped" % name, "%s/%s/running-after-stop" % (tag, name))
        else:
            sx.prove(len(lv) >= 1, "%s task not running" % name, "%s/%s/not-running" % (tag, name))
            if len(lv) == 1:
                t = lv[0]
                sx.prove(t.period == want["period"], "%s period" % name, "%s/%s/period" % (tag, name))
                sx.prove(bool(t.snapshot[1]) == (arb > 0x7FF), "%s frame format" % name, "%s/%s/format" % (tag, name))
                if not remote:
                    got = _data_items(t.snapshot[3])
                    exp = payload()
                    sx.prove(len(got) == len(exp) and sx.all_([a == b for a, b in zip(got, exp)]) is not False,
                             "%s payload length" % name, "%s/%s/payload-length" % (tag, name))
                    if len(got) == len(exp):
                        sx.prove(sx.all_([a == b for a, b in zip(got, exp)]), "%s payload is the current data" % name,
                                 "%s/%s/payload" % (tag, name))
    sx.observe("live", obs)


def op_sync(rig, which):
    s = rig.net.sync
    if which == "start_p":
        p = sx.fresh_int("sp", 1, 1000)
        s.start(p)
        rig.sync_period = p
        rig.ref["sync"] = dict(period=p)
    elif which == "start":
        try:
            s.start()
        except ValueError:
            sx.prove(rig.sync_period is None, "sync.start() refused although a period is known", "C17/sync/refused")
            return
        sx.prove(rig.sync_period is not None, "sync.start() without a period accepted", "C17/sync/no-period")
        rig.ref["sync"] = dict(period=rig.sync_period)
    else:
        s.stop()
        rig.ref["sync"] = None
    sx.reach("sync-" + which)


def op_pdo(rig, which):
    m = rig.map
    if which == "start_p":
        p = sx.fresh_int("pp", 1, 1000)
        m.start(p)
        rig.pdo_period = p
        rig.ref["pdo"] = dict(period=p)
    elif which == "start":
        try:
            m.start()
        except ValueError:
            sx.prove(rig.pdo_period is None, "pdo.start() refused although a period is known", "C17/pdo/refused")
            return
        sx.prove(rig.pdo_period is not None, "pdo.start() without a period accepted", "C17/pdo/no-period")
        rig.ref["pdo"] = dict(period=rig.pdo_period)
    elif which == "stop":
        m.stop()
        rig.ref["pdo"] = None
    elif which == "update":
        m.update()
    elif which == "echo":
        # frames with the map's own COB-ID arrive (echo / another producer) while it may be transmitting
        if rig.ref["pdo"] is not None:
            t1 = sx.fresh_int("et1", 1, 1000)
            t2 = sx.fresh_int("et2", 1, 1000)
            old = sx.mkbytes(sx.items(m.data))
            rig.net.notify(PDO_COB, sx.fresh_bytes("echo1", 2), t1)
            rig.net.notify(PDO_COB, sx.fresh_bytes("echo2", 2), t1 + t2)
            sx.prove(sx.eq_bytes(sx.mkbytes(sx.items(m.data)), old), "received frame overwrote the data being transmitted",
                     "C17/pdo/echo-data")
            sx.prove(m.period == rig.pdo_period, "received frames changed the period of a transmitting map",
                     "C17/pdo/echo-period")
    else:
        if sx.choice(2, "field"):
            rig.nib.raw = sx.fresh_int("nibble", 0, 15)
            sx.reach("pdo-assign-bits")
        else:
            rig.var.raw = sx.fresh_int("val", 0, 0xFFFF)
    sx.reach("pdo-" + which)


def _hb_after_state(rig, old, new):
    rig.hb_state = new


def op_hb(rig, which):
    node = rig.local
    if which == "write1017" and sx.choice(2, "malformed"):
        # a download to 0x1017 with the wrong length arrives over the bus and is refused: nothing changes
        n0 = len(rig.bus.sent)
        wrong = sx.fresh_bytes("wrong", 4)
        rig.net.notify(0x600 + LOCAL_ID, sx.mkbytes([0x23, 0x17, 0x10, 0x00] + sx.items(wrong)), 0.0)
        resp = [m for m in rig.bus.sent[n0:] if bool(m.arbitration_id == 0x580 + LOCAL_ID)]
        sx.prove(len(resp) == 1 and bool(sx.items(resp[0].data)[0] == 0x80), "wrong-length write to 0x1017 not refused",
                 "C17/hb/malformed-accepted")
        sx.reach("hb-malformed")
    elif which == "write1017":
        t = sx.fresh_int("hbt", 0, 0xFFFF)
        node.sdo[0x1017].raw = t
        if bool(t == 0):
            rig.ref["hb"] = None
            sx.reach("hb-zero")
        else:
            rig.ref["hb"] = dict(period=t / 1000.0)
        rig.hb_time = t
    elif which == "command":
        cs = sx.fresh_byte("cs")
        target = [LOCAL_ID, 0, 9][sx.choice(3, "target")]
        rig.net.notify(0, sx.mkbytes([cs, target]), 0.0)
        if target != 9:
            new = rig.hb_state
            for c, s in CMD_TO_STATE.items():
                new = sx.ite(cs == c, s, new)
            rig.hb_state = new
    elif which == "start_direct":
        # the public start_heartbeat(ms) call, independent of what 0x1017 holds
        t = sx.fresh_int("hbd", 1, 0xFFFF)
        node.nmt.start_heartbeat(t)
        rig.ref["hb"] = dict(period=t / 1000.0)
    elif which == "stop_direct":
        node.nmt.stop_heartbeat()
        rig.ref["hb"] = None
    else:
        names = list(NAME_TO_CMD)
        name = which.split(":", 1)[1] if ":" in which else names[sx.choice(len(names), "name")]
        which = "state"
        old = rig.hb_state
        node.nmt.state = name
        new = CMD_TO_STATE[NAME_TO_CMD[name]]
        rig.hb_state = new
        if bool(old == 0) and new == 127:
            # boot: INITIALISING -> PRE-OPERATIONAL starts the producer with the configured time
            t = getattr(rig, "hb_time", 0)
            if bool(t == 0):
                rig.ref["hb"] = None
            else:
                rig.ref["hb"] = dict(period=t / 1000.0)
            sx.reach("hb-boot")
    sx.reach("hb-" + which)


def op_guard(rig, which):
    n = rig.remote.nmt
    if which == "start":
        p = sx.fresh_int("gp", 1, 1000)
        n.start_node_guarding(p)
        rig.ref["guard"] = dict(period=p)
    else:
        n.stop_node_guarding()
        rig.ref["guard"] = None
    sx.reach("guard-" + which)


def op_disconnect(rig, dead_receiver=False):
    if dead_receiver:
        # the receive thread has died (bus.recv() raised): disconnect() reports that - and still tears down
        from symx.models import can_model
        rig.net.notifier = can_model.Notifier(rig.bus, rig.net.listeners)
        rig.net.notifier.exception = can_model.CanOperationError("receive failed")
        try:
            rig.net.disconnect()
        except can_model.CanOperationError:
            sx.reach("disconnect-reports")
    else:
        rig.net.disconnect()
    rig.ref["pdo"] = None
    rig.ref["pdo2"] = None
    # SYNC / heartbeat / guarding: the statement only requires the PDO tasks to stop; do not constrain them
    rig.disconnected = True
    sx.reach("disconnect")


PRODUCERS = {
    "sync": (op_sync, ["start_p", "start", "stop"]),
    "pdo": (op_pdo, ["start_p", "start", "stop", "update", "assign", "echo"]),
    "hb": (op_hb, ["write1017", "command", "state"]),
    "guard": (op_guard, ["start", "stop"]),
}


def history(producer, k, modifiable, first=None, second=None):
    rig = Rig(bool(modifiable))
    fn, ops = PRODUCERS[producer]
    for i in range(k):
        if i == 0 and first:
            op = first
        elif i == 1 and second:
            op = second
        else:
            op = ops[sx.choice(len(ops), "op%d" % i)]
        fn(rig, op)
        check(rig, "C17/" + producer)
    sx.reach("history-" + producer)


def scripted(producer, ops, modifiable):
    """longer histories than the exhaustive ones, with the operations fixed and the values symbolic: stop/start cycles
    with assignments in between (a value may return to what a previous task was given - the solver picks it)"""
    rig = Rig(bool(modifiable))
    fn, _ = PRODUCERS[producer]
    for op in ops:
        fn(rig, op)
        check(rig, "C17/" + producer)
    sx.reach("scripted-" + producer)


def cross(modifiable, dead_receiver=False):
    """all producers running together, then disconnect"""
    rig = Rig(bool(modifiable))
    op_sync(rig, "start_p")
    op_pdo(rig, "start_p")
    rig.map2.start(sx.fresh_int("p2", 1, 1000))
    rig.ref["pdo2"] = dict(period=rig.map2.period)
    op_hb(rig, "write1017")
    op_guard(rig, "start")
    check(rig, "C17/cross")
    op_pdo(rig, "assign")
    check(rig, "C17/cross")
    op_sync(rig, "start_p")
    check(rig, "C17/cross")
    # periodic tasks on maps of the "other" direction as well (RPDO of the local, TPDO of the remote node)
    extra = []
    for mp, cob in ((rig.local.rpdo[1], 0x305), (rig.remote.tpdo[1], 0x387)):
        mp.clear()
        mp.add_variable(C.TYPE_INDEX[0x05])
        mp.cob_id = cob
        mp.enabled = True
        mp.start(sx.fresh_int("px", 1, 1000))
        extra.append(cob)
        sx.prove(len(rig.live(cob)) == 1, "PDO task not started", "C17/cross/extra-start")
    op_disconnect(rig, dead_receiver)
    for name, arb in (("pdo", PDO_COB), ("pdo2", 0x207), ("local-rpdo", 0x305), ("remote-tpdo", 0x387)):
        sx.prove(len(rig.live(arb)) == 0, "PDO task survives disconnect", "C17/disconnect/%s" % name)
    sx.reach("cross")


def jobs(tier):
    out = []
    q = tier == "quick"
    for mod in (1, 0):
        out.append(dict(func="cross", params=dict(modifiable=mod)))
        out.append(dict(func="cross", params=dict(modifiable=mod, dead_receiver=True)))
        for ops in (["start_p", "assign", "stop", "assign", "start", "assign"],
                    ["start_p", "assign", "assign", "stop", "assign", "start_p", "assign", "update"],
                    ["assign", "start_p", "stop", "start", "assign", "stop", "assign", "start", "assign"]):
            out.append(dict(func="scripted", params=dict(producer="pdo", ops=ops, modifiable=mod), weight=500))
        for ops in (["start_direct", "state:RESET", "state:PRE-OPERATIONAL"],
                    ["start_direct", "state:OPERATIONAL", "state:RESET COMMUNICATION", "state:PRE-OPERATIONAL", "state:OPERATIONAL"],
                    ["write1017", "start_direct", "state:RESET", "state:PRE-OPERATIONAL", "stop_direct"],
                    ["start_direct", "stop_direct", "state:RESET", "state:PRE-OPERATIONAL", "start_direct"]):
            out.append(dict(func="scripted", params=dict(producer="hb", ops=ops, modifiable=mod), weight=300))
        out.append(dict(func="scripted", params=dict(producer="sync", ops=["start_p", "stop", "start", "start_p", "stop", "start",
                                                                         "start", "stop"], modifiable=mod)))
        for prod, kq, kt in (("sync", 4, 6), ("pdo", 4, 5), ("guard", 4, 6), ("hb", 3, 3)):
            k = kq if q else kt
            fn, ops = PRODUCERS[prod]
            for first in ops:
                if prod == "hb":
                    for second in ops:
                        out.append(dict(func="history", params=dict(producer=prod, k=k, modifiable=mod, first=first,
                                                                    second=second), weight=20 ** k))
                else:
                    out.append(dict(func="history", params=dict(producer=prod, k=k, modifiable=mod, first=first),
                                    weight=len(ops) ** k))
    return out


META = dict(
    level_text="Bounded symbolic execution of SyncProducer, PdoMap.start/stop/update, PdoVariable.set_data's update "
               "hook, NmtSlave heartbeat (0x1017 write hook, NMT commands, state assignment), NmtMaster node guarding, "
               "PeriodicMessageTask and Network.send_periodic/disconnect against a python-can model that keeps the set "
               "of live cyclic tasks: all call histories up to the bound per producer (periods, heartbeat time, "
               "command specifier, written value symbolic), both bus flavours (modify_data present/absent), the live "
               "set compared with a reference after every call.",
    level_note="The model task copies the message content at creation/modify_data (a backend that snapshots the frame), "
               "so a payload change must reach the task through update(). bus.shutdown() is made a no-op so that the "
               "library's own stopping of PDO tasks is what is observed.",
    bounds=dict(quick="histories: SYNC k<=4 over {start(p), start(), stop}; PDO k<=4 over {start(p), start(), stop, update, "
                      "assign}; guarding k<=4; heartbeat k<=3 over {write 0x1017 (16-bit symbolic), NMT command (cs symbolic, "
                      "target own/0/other), state name}; cross-producer scenario with disconnect; both bus flavours",
                thorough="SYNC/guarding k<=6, PDO k<=5, heartbeat k<=3 (one k=4 job ran past 82000 paths / 600 s)"),
    outside_bounds=["timing of the transmissions themselves (python-can)", "heartbeat after disconnect",
                    "interleaving calls from several threads"],
    assumptions=["periods are positive integers (seconds) in the harness; heartbeat time t ms gives period t/1000.0"],
    stubs=["can (model bus with live task set)", "struct", "threading", "logging"],
    required_reach=["disconnect-reports", "scripted-hb", "hb-start_direct", "scripted-pdo", "scripted-sync", "sync-start_p", "sync-start", "sync-stop", "pdo-start_p", "pdo-start", "pdo-stop", "pdo-update",
                    "pdo-assign", "pdo-assign-bits", "pdo-echo", "hb-write1017", "hb-malformed", "hb-zero", "hb-command", "hb-state", "hb-boot", "guard-start",
                    "guard-stop", "disconnect", "cross"],
    limits=dict(quick=dict(max_decisions=20000), thorough=dict(max_decisions=50000, job_timeout_s=3000)),
    validate_every=dict(quick=7, thorough=101),
    max_validate=dict(quick=40, thorough=40),
)
