"""Shared harness helpers: object dictionaries built in code (independent of the EDS parser),
a recording/loopback bus stub, small utilities."""
from symx import api as sx
from refmodels import cia301 as S301


def odmod():
    return sx.mod("canopen.objectdictionary")


def mkvar(name, index, sub=0, dtype=0x07, access="rw", default=None, value=None, pdo=True):
    v = odmod().ODVariable(name, index, sub)
    v.data_type = dtype
    v.access_type = access
    v.default = default
    v.value = value
    v.pdo_mappable = pdo
    return v


def mkrecord(name, index, members):
    r = odmod().ODRecord(name, index)
    for m in members:
        r.add_member(m)
    return r


def mkarray(name, index, members):
    a = odmod().ODArray(name, index)
    for m in members:
        a.add_member(m)
    return a


U8, U16, U32 = 0x05, 0x06, 0x07


def pdo_comm_record(index, name, subs=(1, 2, 3, 5, 6)):
    mem = [mkvar("Highest sub-index supported", index, 0, U8, "const", default=6)]
    names = {1: ("COB-ID", U32), 2: ("Transmission type", U8), 3: ("Inhibit time", U16),
             4: ("Compatibility entry", U8), 5: ("Event timer", U16), 6: ("SYNC start value", U8)}
    for s in subs:
        n, t = names[s]
        mem.append(mkvar(n, index, s, t, "rw"))
    return mkrecord(name, index, mem)


def pdo_map_array(index, name, n=8):
    mem = [mkvar("Number of mapped objects", index, 0, U8, "rw")]
    for s in range(1, n + 1):
        mem.append(mkvar("Mapping entry %d" % s, index, s, U32, "rw"))
    return mkrecord(name, index, mem)


TYPE_INDEX = {}     # data type code -> index of the test variable of that type
_i = 0x2000
for _c in list(S301.INT_TYPES) + [S301.BOOLEAN, S301.REAL32, S301.REAL64]:
    TYPE_INDEX[_c] = _i + _c


def typed_od(with_pdo=True, extra=()):
    """One variable per numeric data type at 0x2000+code, plus PDO 1 comm/mapping objects."""
    od = odmod().ObjectDictionary()
    for code, idx in TYPE_INDEX.items():
        od.add_object(mkvar("%s value" % S301.NAMES[code], idx, 0, code, "rw"))
    if with_pdo:
        od.add_object(pdo_comm_record(0x1400, "RPDO1 communication parameter"))
        od.add_object(pdo_map_array(0x1600, "RPDO1 mapping parameter"))
        od.add_object(pdo_comm_record(0x1800, "TPDO1 communication parameter"))
        od.add_object(pdo_map_array(0x1A00, "TPDO1 mapping parameter"))
    for o in extra:
        od.add_object(o)
    return od


class Bus:
    """Replacement for Network.send_message on an instance: records frames and optionally
    loops them back into peers."""

    def __init__(self):
        self.frames = []
        self.peers = []      # callables (can_id, data, remote)

    def install(self, network):
        network.send_message = self.send
        return self

    def send(self, can_id, data, remote=False):
        self.frames.append((can_id, data, remote))
        for p in list(self.peers):
            p(can_id, data, remote)


def exc_name(e):
    return type(e).__name__
