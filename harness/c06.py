"""C06 - Refused SDO accesses report the standard abort code and change nothing."""
from symx import api as sx
from harness import common as C
from harness.sdo_rig import ServerRig, ClientRig
from refmodels.sdo_client import RefClient, Abort
from refmodels import cia301 as S301

CLAIMED = True

DOM, VIS = 0x0F, 0x09
# (index, kind, members) ; member = (sub, dtype, access, default)
SPEC = [
    (0x2000, "var", [(0, DOM, "rw", b"\x01\x02\x03\x04\x05\x06\x07\x08\x09")]),
    (0x2001, "var", [(0, 0x05, "rw", 0x11)]),
    (0x2002, "var", [(0, 0x03, "rw", -2)]),
    (0x2003, "var", [(0, 0x16, "rw", 0x030201)]),
    (0x2004, "var", [(0, 0x07, "rw", 0xA0B0C0D0)]),
    (0x2005, "var", [(0, 0x1B, "rw", 0x0102030405060708)]),
    (0x2006, "var", [(0, 0x08, "rw", 1.5)]),
    (0x2007, "var", [(0, VIS, "rw", "hello world")]),
    (0x2010, "var", [(0, 0x06, "ro", 0x1234)]),
    (0x2011, "var", [(0, 0x06, "wo", 7)]),
    (0x2012, "var", [(0, 0x07, "const", 0xCAFE)]),
    (0x2013, "var", [(0, 0x05, "rw", None)]),
    (0x2014, "var", [(0, DOM, "ro", b"abcdefghijk")]),
    # entries of variable length that refuse a read: any byte string could be stored in them by mistake
    (0x2015, "var", [(0, DOM, "wo", b"secret")]),
    (0x2016, "var", [(0, VIS, "rw", None)]),
    (0x2020, "rec", [(0, 0x05, "ro", 4), (1, 0x06, "rw", 1), (2, 0x07, "ro", 2), (4, 0x05, "wo", 9),
                     (5, 0x04, "rw", None)]),
    (0x2030, "arr", [(0, 0x05, "ro", 2), (1, 0x03, "rw", -5), (2, 0x03, "rw", 6)]),
    # arrays whose elements are not freely accessible: members that are not listed are created on demand
    (0x2031, "arr", [(0, 0x05, "ro", 3), (1, 0x06, "ro", 0x77)]),
    (0x2032, "arr", [(0, 0x05, "ro", 3), (1, 0x06, "wo", 0x78)]),
    (0x2033, "arr", [(0, 0x05, "ro", 3), (1, 0x07, "const", 0x79)]),
    # a record that exists but has no members at all: every sub-index is missing, the index is not
    (0x2034, "rec", []),
]
SUB_SCOPE = [0x2020, 0x2030, 0x2031, 0x2032, 0x2033, 0x2034]


def build_od():
    od = C.odmod().ObjectDictionary()
    for index, kind, members in SPEC:
        if kind == "var":
            sub, dt, acc, dv = members[0]
            od.add_object(C.mkvar("v%04x" % index, index, 0, dt, acc, default=dv))
        else:
            mk = C.mkrecord if kind == "rec" else C.mkarray
            od.add_object(mk("o%04x" % index, index,
                             [C.mkvar("m%d" % s, index, s, dt, acc, default=dv) for s, dt, acc, dv in members]))
    return od


def _numeric_width(dt):
    if dt in S301.INT_TYPES or dt in (S301.REAL32, S301.REAL64, S301.BOOLEAN):
        return S301.width(dt) // 8
    return None


WRITTEN = set()      # (index, sub) written by the 'siblings' pre-state in the current path


def classify(idx, sub):
    """independent lookup: returns ('missing-index',) | ('missing-sub',) | ('entry', dtype, access, default)
    (forks on symbolic idx/sub; consistent with the path condition)"""
    for index, kind, members in SPEC:
        if idx == index:
            if kind == "var":
                s, dt, acc, dv = members[0]
                return ("entry", dt, acc, dv)
            for s, dt, acc, dv in members:
                if sub == s:
                    return ("entry", dt, acc, dv)
            if kind == "arr":
                if sub == 0:
                    raise AssertionError
                # arrays: every sub-index 1..255 exists (created from the first element, default copied)
                s, dt, acc, dv = members[1]
                return ("entry", dt, acc, dv)
            return ("missing-sub",)
    return ("missing-index",)


NO_VALUE_CODES = (S301.ABORT_NO_DATA, S301.ABORT_NO_DATA_ALT)


def _addr(scope):
    """symbolic address; 'var': any index with sub 0; 'sub': record/array index with any sub"""
    if scope == "var":
        return sx.fresh_int("idx", 0, 0xFFFF), 0
    idx = SUB_SCOPE[sx.choice(len(SUB_SCOPE), "which")]
    return idx, sx.fresh_int("sub", 0, 0xFF)


def _expect_abort(res, codes, idx, sub, tag):
    if not isinstance(res, Abort):
        sx.fail("access was not refused", tag + "/not-refused")
        return False
    sx.observe("abort", [res.code, res.index, res.sub])
    sx.prove(sx.any_([res.code == c for c in codes]), "abort code", tag + "/code")
    sx.prove((res.index == idx) & (res.sub == sub), "abort carries the multiplexer of the transfer", tag + "/mux")
    return True


def _pre(cli, rig, pre):
    WRITTEN.clear()
    if pre == "other-node":
        # another local node of the same process (same dictionary layout, another id) has had every writable entry
        # written: that is its business alone
        rig2 = ServerRig(build_od(), 3)
        cli2 = RefClient(rig2.deliver, "C06")
        for index, kind, members in SPEC:
            for s_, dt, acc, dv in members:
                if acc in ("rw", "wo"):
                    w = _numeric_width(dt) or 3
                    r = cli2.download(index, s_, [0x11] * w, "exp-size" if w <= 4 else "seg-size")
                    sx.prove(r is None, "write on the other node failed", "C06/history/pre-other-node")
        sx.prove(len(rig.store_snapshot()) == 0, "a node that was never written holds values", "C06/other-node/store")
        sx.reach("other-node")
    if pre == "siblings":
        WRITTEN.update({(0x2020, 1), (0x2030, 1)})
    if pre == "upload":
        r = cli.upload(0x2012, 0)
        sx.prove(not isinstance(r, Abort) and r is not None, "preceding upload failed", "C06/history/pre-upload")
    elif pre == "download":
        r = cli.download(0x2000, 0, list(b"0123456789"), "seg-size")
        sx.prove(r is None, "preceding download failed", "C06/history/pre-download")
    elif pre == "client-abort":
        # the client starts an upload of 0x2000 (9 bytes: segmented) and gives up with an abort frame that, like the
        # library's own, names 0x0000:00; the server was serving 0x2000:00
        r = cli.xfer([0x40, 0x00, 0x20, 0x00, 0, 0, 0, 0])
        sx.prove(r is not None and r[0] == 0x41, "preceding initiate failed", "C06/history/pre-abort")
        rig.deliver(sx.mkbytes([0x80, 0, 0, 0, 0x00, 0x00, 0x04, 0x05]))
    elif pre == "download-sized2":
        # a *sized* segmented download of two bytes to a 16-bit entry (size 2 announced), accepted: what it announced
        # has no bearing on later transfers (which may come without a size)
        r = cli.download(0x2002, 0, [0x34, 0x12], "seg-size")
        sx.prove(r is None, "preceding download failed", "C06/history/pre-download")
        WRITTEN.add((0x2002, 0))
    elif pre.startswith("open-download"):
        # a segmented download to 0x2000 is left open: initiated, one segment confirmed, not finished
        r = cli.xfer([0x20, 0x00, 0x20, 0x00, 0, 0, 0, 0])
        sx.prove(r is not None and r[0] == 0x60, "preceding initiate failed", "C06/history/pre-open")
        r = cli.xfer([0x00] + list(b"OPENDAT"))
        sx.prove(r is not None and r[0] == 0x20, "preceding segment failed", "C06/history/pre-open")
        if pre.endswith("local-read"):
            # the application reads another object of its own node while the client's transfer is open
            v = rig.node.sdo[0x2001].raw
            sx.prove(v == 0x11, "local read", "C06/history/pre-local-read")
            sx.reach("local-read")
    elif pre == "siblings":
        # successful writes to one member of each record/array: their siblings must behave as before
        for idx in (0x2020, 0x2030):
            r = cli.download(idx, 1, [0x34, 0x12], "exp-size")
            sx.prove(r is None, "preceding member download failed", "C06/history/pre-siblings")


def _post(cli, rig):
    p = sx.fresh_bytes("post", 9)
    r = cli.download(0x2000, 0, sx.items(p), "seg-size")
    sx.prove(r is None, "transfer after a refusal failed", "C06/history/post-download")
    res = cli.upload(0x2000, 0)
    ok = res is not None and not isinstance(res, Abort)
    sx.prove(ok and sx.eq_bytes(sx.mkbytes(res[0]), p) is not False, "upload after a refusal failed",
             "C06/history/post-upload")
    if ok:
        sx.prove(sx.eq_bytes(sx.mkbytes(res[0]), p), "upload after a refusal", "C06/history/post-value")


def _late_segment(cli, rig, before, tag, initiate=True):
    """A download to 0x2000 was left open before the refusal (pre-state 'open-download').  Whether a server ends
    that download on the refusal or lets it go on is its own business; what the property demands is that the
    refused access changes nothing: a further segment may be refused, or may continue the download *to 0x2000*,
    but no other object - in particular not the one whose access was just refused - may change."""
    extra = [sx.ite(sx.fresh_bool("ltog"), 0x10, 0) | 0x01 | (sx.fresh_int("ln", 0, 7) << 1)] + \
        sx.items(sx.fresh_bytes("ldata", 7))
    r = cli.xfer(extra)
    after = rig.store_snapshot()
    a = {k: v for k, v in after.items() if k != (0x2000, 0)}
    b = {k: v for k, v in before.items() if k != (0x2000, 0)}
    sx.prove(_same(a, b), "a segment after a refused access changed an object other than the open download's",
             tag + "/open-download/stored")
    if r is not None and bool(r[0] == 0x80):
        sx.prove(_same(after, before), "a refused segment changed the store", tag + "/open-download/refused-stored")
    sx.reach("late-segment")


def refuse_read(scope, pre="none", callback=False):
    rig = ServerRig(build_od())
    cli = RefClient(rig.deliver, "C06")
    _pre(cli, rig, pre)
    if callback:
        # the application supplies values through a read callback: that does not make a write-only entry
        # readable, and it does give a value to entries that have none of their own
        rig.node.add_read_callback(lambda index, subindex, od: 1 if od.data_type in S301.INT_TYPES else None)
    idx, sub = _addr(scope)
    before = rig.store_snapshot()
    res = cli.upload(idx, sub)
    cls = classify(idx, sub)
    tag = "C06/read"
    if res is None:
        return
    if cls[0] == "missing-index":
        _expect_abort(res, (S301.ABORT_NO_OBJECT,), idx, sub, tag + "/missing-index")
        sx.reach("read-missing-index")
    elif cls[0] == "missing-sub":
        _expect_abort(res, (S301.ABORT_NO_SUBINDEX,), idx, sub, tag + "/missing-sub")
        sx.reach("read-missing-sub")
    else:
        _, dt, acc, dv = cls
        if acc == "wo":
            _expect_abort(res, (S301.ABORT_READ_WO,), idx, sub, tag + "/write-only")
            sx.reach("read-wo")
        elif dv is None and not (callback and dt in S301.INT_TYPES) and not any(bool((idx == i) & (sub == s_)) for i, s_ in WRITTEN):
            _expect_abort(res, NO_VALUE_CODES, idx, sub, tag + "/no-value")
            sx.reach("read-no-value")
        else:
            sx.prove(not isinstance(res, Abort), "readable entry refused", tag + "/refused")
            sx.reach("read-ok")
    sx.prove(rig.store_snapshot() == before or _same(rig.store_snapshot(), before), "read changed the store",
             tag + "/store-changed")
    if pre.startswith("open-download"):
        _late_segment(cli, rig, before, tag)
    _post(cli, rig)


def _same(a, b):
    if set(a) != set(b):
        return False
    return sx.all_([sx.eq_bytes(a[k], b[k]) for k in a])


def refuse_write(scope, n, mode, pre="none"):
    rig = ServerRig(build_od())
    cli = RefClient(rig.deliver, "C06")
    _pre(cli, rig, pre)
    seen = []
    rig.node.add_write_callback(lambda index, subindex, od, data: seen.append((index, subindex)))
    idx, sub = _addr(scope)
    before = rig.store_snapshot()
    payload = sx.fresh_bytes("p", n)
    res = cli.download(idx, sub, sx.items(payload), mode)
    cls = classify(idx, sub)
    tag = "C06/write/%s" % mode
    refused = True
    if cls[0] == "missing-index":
        _expect_abort(res, (S301.ABORT_NO_OBJECT,), idx, sub, tag + "/missing-index")
        sx.reach("write-missing-index")
    elif cls[0] == "missing-sub":
        _expect_abort(res, (S301.ABORT_NO_SUBINDEX,), idx, sub, tag + "/missing-sub")
        sx.reach("write-missing-sub")
    else:
        _, dt, acc, dv = cls
        codes = []
        if acc in ("ro", "const"):
            codes.append(S301.ABORT_WRITE_RO)
        w = _numeric_width(dt)
        if w is not None and w != n:
            codes.append(S301.ABORT_LENGTH)
        if codes:
            _expect_abort(res, codes, idx, sub, tag + "/" + ("read-only" if S301.ABORT_WRITE_RO in codes else "length"))
            sx.reach("write-ro" if S301.ABORT_WRITE_RO in codes else "write-length")
        else:
            refused = False
            sx.prove(res is None, "legal write refused", tag + "/refused")
            sx.reach("write-ok")
    if refused:
        after = rig.store_snapshot()
        sx.prove(_same(after, before), "refused write changed the stored value", tag + "/store-changed")
        sx.prove(len(seen) == 0, "write callback ran for a refused write", tag + "/callback-ran")
        if mode.startswith("seg"):
            # the refused transfer is over: one more download segment must not be taken for its continuation
            extra = [sx.ite(sx.fresh_bool("xtog"), 0x10, 0) | 0x01 | (sx.fresh_int("xn", 0, 7) << 1)] + \
                sx.items(sx.fresh_bytes("xdata", 7))
            r = cli.xfer(extra)
            if r is not None:
                sx.prove(r[0] == 0x80, "a download segment after a refused write was acknowledged", tag + "/late-segment")
            sx.prove(_same(rig.store_snapshot(), before), "a segment after a refused write changed the store",
                     tag + "/late-segment-stored")
            sx.prove(len(seen) == 0, "write callback ran after a refused write", tag + "/late-segment-callback")
    if pre.startswith("open-download"):
        _late_segment(cli, rig, rig.store_snapshot(), tag)
        if refused:
            sx.prove(len(seen) == 0, "write callback ran after a refused write", tag + "/open-download/callback")
    _post(cli, rig)


def toggle_error(direction, pre="none"):
    rig = ServerRig(build_od())
    cli = RefClient(rig.deliver, "C06")
    _pre(cli, rig, pre)
    mux = [0x00, 0x20, 0x00]
    before = None
    if direction == "upload":
        r = cli.xfer([0x40] + mux + [0, 0, 0, 0])
        good = sx.choice(2, "good_first")      # wrong toggle on the first or on the second segment
        if good:
            cli.xfer([0x60, 0, 0, 0, 0, 0, 0, 0])
            r = cli.xfer([0x60, 0, 0, 0, 0, 0, 0, 0])
        else:
            r = cli.xfer([0x70, 0, 0, 0, 0, 0, 0, 0])
    else:
        before = rig.store_snapshot()
        r = cli.xfer([0x21] + mux + [14, 0, 0, 0])
        good = sx.choice(2, "good_first")
        d = sx.items(sx.fresh_bytes("d", 7))
        if good:
            cli.xfer([0x00] + d)
            r = cli.xfer([0x00] + d)
        else:
            r = cli.xfer([0x10] + d)
    tag = "C06/toggle/%s" % direction
    if r is None:
        return
    sx.observe("resp", sx.mkbytes(r))
    sx.prove(r[0] == 0x80, "wrong toggle bit not refused", tag + "/not-refused")
    code = r[4] | (r[5] << 8) | (r[6] << 16) | (r[7] << 24)
    sx.prove(code == S301.ABORT_TOGGLE, "toggle abort code", tag + "/code")
    sx.prove((r[1] == 0x00) & (r[2] == 0x20) & (r[3] == 0), "abort carries the multiplexer of the transfer", tag + "/mux")
    if before is not None:
        sx.prove(_same(rig.store_snapshot(), before), "toggle error changed the store", tag + "/store-changed")
        # The client carries on with the right toggle bit.  A server may treat the transfer as ended by its abort
        # (nothing stored) or let it go on; if it goes on, the refused segment must have left no trace: what is
        # finally stored is exactly the data of the accepted segments.
        c = sx.items(sx.fresh_bytes("c", 7))
        tg = 0x10 if good else 0x00
        r2 = cli.xfer([tg | 0x01] + c)
        if r2 is not None:
            after = rig.store_snapshot()
            if bool(r2[0] == 0x80):
                sx.prove(_same(after, before), "refused continuation changed the store", tag + "/continued/store-changed")
                sx.reach("toggle-ended")
            else:
                exp = (d if good else []) + c
                got = after.get((0x2000, 0))
                sx.prove(got is not None and len(sx.items(got)) == len(exp) and sx.eq_bytes(got, sx.mkbytes(exp)),
                         "the refused segment's data leaked into the stored value", tag + "/continued/stored")
                others_a = {k: v for k, v in after.items() if k != (0x2000, 0)}
                others_b = {k: v for k, v in before.items() if k != (0x2000, 0)}
                sx.prove(_same(others_a, others_b), "continuation changed another object", tag + "/continued/others")
                sx.reach("toggle-continued")
    sx.reach("toggle-" + direction)
    _post(cli, rig)


def unknown_command(kind, pre="none"):
    rig = ServerRig(build_od())
    cli = RefClient(rig.deliver, "C06")
    _pre(cli, rig, pre)
    before = rig.store_snapshot()
    idx = sx.fresh_int("idx", 0, 0xFFFF)
    sub = sx.fresh_int("sub", 0, 0xFF)
    mux = [sx.byte_of(idx, 0), sx.byte_of(idx, 1), sub]
    if kind == "ccs7":
        low = sx.fresh_int("low", 0, 31)
        r = cli.xfer([0xE0 | low] + mux + sx.items(sx.fresh_bytes("rest", 4)))
    else:   # block download initiate (unsupported by this server)
        low = sx.fresh_int("low", 0, 6)
        sx.assume((low & 1) == 0)           # cs = 0: initiate
        r = cli.xfer([0xC0 | low] + mux + sx.items(sx.fresh_bytes("rest", 4)))
    tag = "C06/unknown/%s" % kind
    if r is None:
        return
    sx.observe("resp", sx.mkbytes(r))
    sx.prove(r[0] == 0x80, "unsupported command not refused", tag + "/not-refused")
    code = r[4] | (r[5] << 8) | (r[6] << 16) | (r[7] << 24)
    sx.prove(code == S301.ABORT_UNKNOWN_COMMAND, "unknown-command abort code", tag + "/code")
    if kind == "block":
        sx.prove((r[1] == mux[0]) & (r[2] == mux[1]) & (r[3] == mux[2]),
                 "abort carries the multiplexer of the refused transfer", tag + "/mux")
    elif pre == "client-abort":
        # a command without a multiplexer of its own: the abort names the transfer the server served last, not what a
        # client abort frame happened to carry
        sx.prove((r[1] == 0x00) & (r[2] == 0x20) & (r[3] == 0), "abort names the transfer served last", tag + "/mux-after-abort")
    sx.prove(_same(rig.store_snapshot(), before), "store changed", tag + "/store-changed")
    sx.reach("unknown-" + kind)
    if kind == "ccs7" and pre.startswith("open-download"):
        sx.prove((r[1] == 0x00) & (r[2] == 0x20) & (r[3] == 0), "abort names the open transfer", tag + "/mux-open-transfer")
    if pre.startswith("open-download"):
        _late_segment(cli, rig, before, tag, initiate=(kind == "block"))
    _post(cli, rig)


# ---- client side: abort frame -> SdoAbortedError(code) ---------------------------------------------
class _AbortingServer:
    """answers normally (reference server) until step `at`, then with an abort frame carrying `code`.  After its
    abort the server has no transfer any more: like any CiA 301 server it answers a further non-initiate request
    with abort 0x05040001 (and a client abort with nothing)."""

    def __init__(self, inner, at, code):
        self.inner, self.at, self.code, self.n = inner, at, code, 0
        self.after = []          # requests received after the abort

    def on_request(self, frame):
        f = sx.items(frame)
        k = self.n
        self.n += 1
        if k < self.at:
            return self.inner.on_request(frame)
        if k == self.at:
            return [sx.mkbytes([0x80, 0x00, 0x20, 0x00] + [sx.byte_of(self.code, i) for i in range(4)])]
        self.after.append(frame)
        if bool(f[0] == 0x80):
            return []
        return [sx.mkbytes([0x80, 0x00, 0x20, 0x00, 0x01, 0x00, 0x04, 0x05])]


def client_abort(op, at):
    from refmodels.sdo_server import RefServer
    E = sx.mod("canopen.sdo.exceptions")
    code = sx.fresh_int("code", 0, 0xFFFFFFFF)
    if op == "block-download":
        from refmodels.block_server import BlockDownloadServer
        inner = BlockDownloadServer([127], crc=True, tag="C06c")
        inner.expect_mux = (0x2000, 0)
    elif op == "block-upload":
        from refmodels.block_server import BlockUploadServer
        inner = BlockUploadServer(list(range(20)), crc=True, size_indicated=True)
        inner.expect_mux = (0x2000, 0)
    else:
        inner = RefServer("C06c")
        inner.value = list(range(20))
    inner.check = False        # frame legality after an abort is not this property's business
    srv = _AbortingServer(inner, at, code)
    rig = ClientRig(srv)
    tag = "C06/client/%s" % op
    try:
        if op == "block-download":
            with rig.client.open(0x2000, 0, "wb", size=20, block_transfer=True) as fp:
                fp.write(bytes(range(20)))
        elif op == "block-upload":
            with rig.client.open(0x2000, 0, "rb", block_transfer=True) as fp:
                fp.read()
        elif op == "upload":
            rig.client.upload(0x2000, 0)
        elif op == "download-exp":
            rig.client.download(0x2000, 0, b"\x01\x02")
        else:
            rig.client.download(0x2000, 0, bytes(range(16)))
    except E.SdoAbortedError as e:
        sx.observe("code", e.code)
        sx.prove(e.code == code, "SdoAbortedError exposes the received code", tag + "/code")
        import gc
        gc.collect()             # finalizers of half-used stream objects run now
        sx.observe("after", [sx.mkbytes(sx.items(x)) for x in srv.after])
        if op == "block-download":
            # inside a sub-block the client does not listen: the remaining segments (sequence numbers 2, 3) of the
            # sub-block may still follow the abort; the end-of-transfer request may not
            late = [x for x in srv.after if not bool(((sx.items(x)[0] & 0x7F) >= 1) & ((sx.items(x)[0] & 0x7F) <= 3))]
        else:
            late = list(srv.after)
        sx.prove(len(late) == 0, "the client went on sending frames of the transfer the server had aborted",
                 tag + "/frames-after-abort")
        sx.reach("client-abort")
        return
    except Exception as e:
        sx.fail("abort frame raised %s instead of SdoAbortedError" % C.exc_name(e), tag + "/wrong-exception")
        return
    sx.fail("abort frame ignored", tag + "/ignored")


def jobs(tier):
    out = []
    pres = ("none", "upload", "download", "siblings", "open-download", "other-node", "download-sized2", "open-download-local-read")
    for pre in pres:
        for scope in ("var", "sub"):
            out.append(dict(func="refuse_read", params=dict(scope=scope, pre=pre), weight=20))
            if pre in ("none", "open-download", "open-download-local-read"):
                out.append(dict(func="refuse_read", params=dict(scope=scope, pre=pre, callback=True), weight=20))
            for n in range(0, 10):
                modes = ["seg-size", "seg-nosize"]
                if 1 <= n <= 4:
                    modes.append("exp-size")
                if n == 4:
                    modes.append("exp-nosize")
                for mode in modes:
                    if pre == "download-sized2":
                        if mode != "seg-nosize" or n > 5:       # the unsized follow-ups are the point of this pre-state
                            continue
                    elif pre != "none" and (n not in (1, 2, 4, 8) or mode == "seg-nosize") and tier == "quick":
                        continue
                    out.append(dict(func="refuse_write", params=dict(scope=scope, n=n, mode=mode, pre=pre), weight=20))
        for d in ("upload", "download"):
            out.append(dict(func="toggle_error", params=dict(direction=d, pre=pre)))
        for k in ("ccs7", "block"):
            out.append(dict(func="unknown_command", params=dict(kind=k, pre=pre)))
    out.append(dict(func="unknown_command", params=dict(kind="ccs7", pre="client-abort")))
    for op, steps in (("upload", 4), ("download-exp", 1), ("download-seg", 4), ("block-download", 5), ("block-upload", 3)):
        for at in range(steps):
            out.append(dict(func="client_abort", params=dict(op=op, at=at)))
    return out


META = dict(
    level_text="Bounded symbolic execution of LocalNode._find_object/get_data/set_data and SdoServer against the "
               "reference client: the addressed index (all 65536) and sub-index (all 256) are symbolic, so the "
               "solver-aware dictionary lookup explores every existing entry and 'none'; payloads symbolic with "
               "every length 0..9 in expedited and segmented form; refusals alone, after a successful upload and after "
               "a successful download, each followed by a transfer that must work; client side: one symbolic 32-bit "
               "abort code covers all 2^32 codes at every protocol step.",
    level_note="Oracle: independent table of conditions -> CiA 301 codes over a spec list of the harness dictionary "
               "(15 objects: rw/ro/wo/const, numeric/string/domain, record with gaps, array). When two conditions "
               "hold at once either code is accepted; 'no value' accepts 0x060A0023 or 0x08000024. Sub-index != 0 on "
               "VAR objects is not claimed (the library ignores it).",
    bounds=dict(quick="all index / sub-index values; payload lengths 0..9; 4 download styles; toggle error on the first or "
                      "second segment in both directions; unknown ccs 7 with all low bits, block-download initiate with "
                      "symbolic multiplexer; 5 pre-states (none, upload, download, written siblings, a download left open) with "
                      "a late segment after the refusal; continuation after a toggle error; arrays with ro/wo/const elements "
                      "(members created on demand); abort injected at every step of 3 client transfers",
                thorough="same with all (length, style) combinations in every history position"),
    outside_bounds=["object dictionaries other than the harness dictionary (the lookup code is uniform in the entries)",
                    "sub-index != 0 on VAR objects", "refusals by the *server under test* in the middle of block transfers (it does not implement them); the client side is covered"],
    assumptions=["abort code for 'no value' as the repo's suite expects (0x060A0023)"],
    stubs=["struct", "bytes/bytearray", "dict displays -> SymDict", "queue", "logging"],
    required_reach=["other-node", "local-read", "read-missing-index", "read-missing-sub", "read-wo", "read-no-value", "read-ok",
                    "write-missing-index", "write-missing-sub", "write-ro", "write-length", "write-ok",
                    "toggle-upload", "toggle-download", "unknown-ccs7", "unknown-block", "client-abort"],
    limits=dict(quick=dict(max_decisions=20000), thorough=dict(max_decisions=20000, crosscheck_every=20, crosscheck_max=20)),
    validate_every=dict(quick=3, thorough=3),
    max_validate=dict(quick=60, thorough=100),
)
