"""C08 - Importing an EDS/DCF yields exactly the described object dictionary."""
import io

from symx import api as sx
from harness import common as C
from refmodels import cia301 as S301
from refmodels.eds_writer import Doc, Entry, num

CLAIMED = True

DEVICE_INFO = ["VendorName=ACME motors", "VendorNumber=%s", "ProductName=Drive 3000", "ProductNumber=%s",
               "RevisionNumber=%s", "OrderCode=D3K-1", "BaudRate_10=0", "BaudRate_125=1", "BaudRate_250=1",
               "BaudRate_500=1", "BaudRate_1000=0", "SimpleBootUpMaster=0", "SimpleBootUpSlave=1", "Granularity=8",
               "DynamicChannelsSupported=0", "GroupMessaging=0", "NrOfRXPDO=%s", "NrOfTXPDO=%s", "LSS_Supported=1"]


def _import(text, suffix=".eds", node_id=None):
    fp = io.StringIO(text)
    fp.name = "generated" + suffix
    return sx.mod("canopen").import_od(fp, node_id)


def _base_doc(with_info=True):
    d = Doc()
    d.section("FileInfo", ["FileName=generated.eds", "FileVersion=1", "EDSVersion=4.0"])
    if with_info:
        d.section("DeviceInfo", [l % "1" if "%s" in l else l for l in DEVICE_INFO])
    return d


def _is(a, b):
    """a == b where None must match None exactly"""
    if a is None or b is None:
        return a is None and b is None
    return a == b


def _check_var(var, e, tag, node_offset=None):
    ODVariable = C.odmod().ODVariable
    sx.prove(isinstance(var, ODVariable), "object kind", tag + "/kind")
    if not isinstance(var, ODVariable):
        return
    sx.prove(var.name == e.name, "name", tag + "/name")
    sx.prove(var.index == e.index and var.subindex == e.sub, "index/sub-index", tag + "/address")
    sx.prove(var.data_type == e.data_type, "data type", tag + "/data-type")
    sx.prove(var.access_type == e.access.lower(), "access type", tag + "/access")
    sx.prove(_is(var.default, e.default), "default value", tag + "/default")
    sx.prove(_is(var.value, e.value), "parameter value", tag + "/value")
    sx.prove(_is(var.min, e.low), "low limit", tag + "/low")
    sx.prove(_is(var.max, e.high), "high limit", tag + "/high")
    if e.pdo is not None:
        sx.prove(var.pdo_mappable == (e.pdo != 0), "PDO mappability", tag + "/pdo")
    else:
        sx.prove(var.pdo_mappable is False or var.pdo_mappable == False, "PDO mappability default", tag + "/pdo")
    sx.prove(bool(var.relative) == bool(e.relative), "relative flag", tag + "/relative")
    if e.factor is not None:
        sx.prove(var.factor == float(e.factor), "factor", tag + "/factor")
    if e.unit is not None:
        sx.prove(var.unit == e.unit, "unit", tag + "/unit")
    if e.description is not None:
        sx.prove(var.description == e.description, "description", tag + "/description")
    sx.prove(var.storage_location == e.storage, "storage location", tag + "/storage")


def _twos(v, w):
    """non-negative two's complement image of v in w bits (what a hex limit of a signed type spells)"""
    return v + sx.ite(v < 0, 1 << w, 0)


def int_variable(code, access, spelling, doc_type, present="both"):
    """one variable of an integer type: default, parameter value (DCF), limits, PDO flag all symbolic
    (present: which of DefaultValue / ParameterValue the entry has - every combination is legal)"""
    name, w, signed = S301.INT_TYPES[code]
    lo, hi = S301.int_range(code)
    v = sx.fresh_int("default", lo, hi)
    low = sx.fresh_int("low", lo, hi)
    high = sx.fresh_int("high", lo, hi)
    pdo = sx.fresh_int("pdo", 0, 1)
    pv = sx.fresh_int("pvalue", lo, hi) if doc_type == "dcf" else None
    e = Entry("Some %s" % name, 0x2000 + code, 0, code, access, pdo=pdo, default=v, low=low, high=high, value=pv,
              storage="PERSIST_COMM" if access == "rw" else None)
    if present == "value-only":
        e.default = None
    elif present == "default-only":
        e.value = pv = None
    elif present == "neither":
        e.default = None
        e.value = pv = None
    if spelling == "hex":
        # hex: two's complement for the limits of signed types; defaults of signed types stay decimal
        e.default_text = num(v, "hex") if not signed else num(v)
        e.low_text = num(_twos(low, w), "hex")
        e.high_text = num(_twos(high, w), "hexl")
        if pv is not None:
            e.value_text = num(pv, "hex") if not signed else num(pv)
    else:
        e.default_text, e.low_text, e.high_text = num(v), num(low), num(high)
        if pv is not None:
            e.value_text = num(pv)
    if e.default is None:
        e.default_text = None
    d = _base_doc()
    d.variable(e, "hex4" if spelling == "hex" else "dec")
    text = d.text()
    od = _import(text, "." + doc_type)
    sx.observe("text", text)
    tag = "C08/int/%s" % name + ("" if present == "both" else "/" + present)
    sx.prove(e.index in od, "object missing", tag + "/missing")
    if e.index not in od:
        return
    var = od[e.index]
    _check_var(var, e, tag)
    sx.prove(od[e.name] is var, "lookup by name reaches the same object", tag + "/by-name")
    sx.reach("int-" + spelling)
    sx.reach("signed" if signed else "unsigned")


def multi_variable(codes, spelling):
    """several integer variables of different types in one file (sections must not influence each other)"""
    d = _base_doc()
    entries = []
    for k, code in enumerate(codes):
        name, w, signed = S301.INT_TYPES[code]
        lo, hi = S301.int_range(code)
        v = sx.fresh_int("v%d" % k, lo, hi)
        low = sx.fresh_int("l%d" % k, lo, hi)
        e = Entry("Var %d %s" % (k, name), 0x2000 + 16 * k + code, 0, code, "rw", default=v, low=low)
        e.default_text = num(v) if signed or spelling == "dec" else num(v, "hex")
        e.low_text = num(_twos(low, w), "hex") if spelling == "hex" else num(low)
        entries.append(e)
        d.variable(e)
    od = _import(d.text())
    for e in entries:
        sx.prove(e.index in od, "object missing", "C08/multi/missing")
        if e.index in od:
            _check_var(od[e.index], e, "C08/multi")
    sx.prove(len(od) == len(entries), "number of objects", "C08/multi/count")
    sx.reach("multi")


def nodeid_literal(form, literal):
    """$NODEID forms with concrete digit strings (the token abstraction hides character-level slips)"""
    x = int(literal, 0)
    nid = sx.fresh_int("nid", 1, 127)
    text_val = ("$NODEID+%s" % literal) if form == "prefix" else ("%s+$NODEID" % literal)
    e = Entry("COB-ID literal", 0x1400, 1, 0x07, "rw", default_text=text_val, relative=True)
    pv = Entry("COB-ID value", 0x1400, 2, 0x07, "rw", default_text="0", default=0, value_text=text_val)
    d = _base_doc()
    d.record("RPDO 1", 0x1400, [Entry("n", 0x1400, 0, 0x05, "ro", default=2, default_text="2"), e, pv])
    od = _import(d.text(), ".dcf", node_id=nid)
    sx.prove(_is(od[0x1400][1].default, x + nid), "$NODEID + literal offset resolved", "C08/nodeid-literal/default")
    sx.prove(_is(od[0x1400][2].value, x + nid), "$NODEID + literal offset resolved (ParameterValue)",
             "C08/nodeid-literal/value")
    sx.reach("nodeid-literal")


def nodeid(form, source, spaces, late=0):
    """$NODEID-relative values resolved against the node id in force (late: the commissioning section
    comes after the object sections in the file)"""
    x = sx.fresh_int("x", 0, 0x7FF)
    nid = sx.fresh_int("nid", 1, 127)
    nid_file = sx.fresh_int("nid_file", 1, 127)
    xs = num(x, "hex") if sx.choice(2, "xhex") else num(x)
    sp = " " if spaces else ""
    text_val = ("$NODEID%s+%s%s" % (sp, sp, xs)) if form == "prefix" else ("%s%s+%s$NODEID" % (xs, sp, sp))
    e = Entry("COB-ID something", 0x1400, 1, 0x07, "rw", default_text=text_val, relative=True)
    d = _base_doc()
    if source in ("file", "both") and not late:
        d.section("DeviceComissioning", ["NodeID=%s" % num(nid_file, "hex" if spaces else "dec"), "Baudrate=500"])
    d.record("RPDO 1", 0x1400, [Entry("n", 0x1400, 0, 0x05, "ro", default=2, default_text="2"), e])
    if source in ("file", "both") and late:
        d.section("DeviceComissioning", ["NodeID=%s" % num(nid_file, "hex" if spaces else "dec"), "Baudrate=500"])
    od = _import(d.text(), ".dcf" if source in ("file", "both") else ".eds",
                 node_id=nid if source in ("arg", "both") else None)
    var = od[0x1400][1]
    tag = "C08/nodeid/%s/%s" % (form, source)
    if source == "none":
        sx.prove(var.relative is True, "relative flag without a node id", tag + "/relative")
        sx.prove(od.node_id is None, "node id absent", tag + "/node-id")
        sx.reach("nodeid-none")
        return
    force = nid if source in ("arg", "both") else nid_file
    if source != "arg":
        sx.prove(_is(od.node_id, force), "node id in force", tag + "/node-id")
    sx.prove(_is(var.default, x + force), "$NODEID resolved against the node id in force", tag + "/resolved")
    sx.prove(var.relative is True, "relative flag", tag + "/relative")
    if source != "arg":
        sx.prove(od.bitrate == 500000, "bit rate from the file", tag + "/bitrate")
    sx.reach("nodeid-" + source)


def structure(sub_spelling):
    """records, arrays, missing ObjectType, DOMAIN object, strings, REAL, factor/unit/description,
    lookups by index, name and 'Parent.Child'"""
    v1 = sx.fresh_int("v1", 0, 0xFFFF)
    v2 = sx.fresh_int("v2", -(1 << 31), (1 << 31) - 1)
    v3 = sx.fresh_int("v3", 0, 255)
    d = _base_doc()
    plain = Entry("Plain var without object type", 0x2010, 0, 0x06, "ro", default=v1, default_text=num(v1, "hex"),
                  object_type=None)
    d.variable(plain)
    members = [Entry("Highest sub-index", 0x2100, 0, 0x05, "const", default=3, default_text="3"),
               Entry("Member A", 0x2100, 1, 0x04, "rw", default=v2, default_text=num(v2), pdo=1,
                     factor="0.5", unit="mm", description="first member"),
               Entry("Member #3 C", 0x2100, 3, 0x05, "wo", default=v3, default_text=num(v3, "hexl")),
               Entry("Member at sub 0x1B", 0x2100, 0x1B, 0x06, "rw", default=v1, default_text=num(v1)),
               Entry("Blob member", 0x2100, 0x1C, 0x0F, "rw")]
    d.record("A record", 0x2100, members, "0x9", sub_spelling, storage="RAM")
    # objects without the ObjectType keyword are variables wherever they stand: also right after a record / an array
    plain2 = Entry("Plain var after a record", 0x2150, 0, 0x07, "rw", default=v1, default_text=num(v1), object_type=None)
    d.variable(plain2)
    amembers = [Entry("Number of entries", 0x2200, 0, 0x05, "ro", default=2, default_text="0x2"),
                Entry("Element", 0x2200, 1, 0x03, "rw", default=-7, default_text="-7"),
                Entry("Element 2", 0x2200, 2, 0x03, "rw")]
    d.record("An array", 0x2200, amembers, "0x8", sub_spelling)
    plain3 = Entry("Plain var after an array", 0x2250, 0, 0x05, "rw", default=v3, default_text=num(v3), object_type=None)
    d.variable(plain3)
    dom = Entry("Firmware", 0x2300, 0, 0x0F, "wo", object_type="0x2")
    d.variable(dom)
    txt = Entry("Device name", 0x2301, 0, 0x09, "const", default="Drive 3000 rev B #7", default_text="Drive 3000 rev B #7")
    d.variable(txt)
    octs = Entry("Key", 0x2302, 0, 0x0A, "rw", default=bytes.fromhex("00ff10a5"), default_text="00ff10a5")
    d.variable(octs)
    real = Entry("Gain", 0x2303, 0, 0x08, "rw", default=1.5, default_text="1.5")
    d.variable(real)
    flags = [Entry("Flag %d" % i, 0x2310 + i, 0, 0x01, "rw", default=val, default_text=txt_, pdo=1)
             for i, (val, txt_) in enumerate(((1, "1"), (0, "0"), (1, "0x1"), (0, "0x0")))]
    for f, ptxt in zip(flags, ("0x0", "0x1", "0x00", "1")):
        f.pdo = int(ptxt, 0)
        f.pdo_text = ptxt             # literal spellings of the flag (the exporter itself writes 0x0 / 0x1)
        d.variable(f)
    dotted = Entry("Max. motor speed", 0x2304, 0, 0x07, "rw", default=v1, default_text=num(v1))
    d.variable(dotted)
    # 12 comment lines (more than 9: numeric, not alphabetical, order), the count in hex for one spelling, the
    # section's keys not in order
    clines = ["first line", "second = line"] + ["line # %d" % i for i in range(3, 13)]
    ckeys = ["Line%d=%s" % (i + 1, t) for i, t in enumerate(clines)]
    d.section("Comments", ["Lines=%s" % ("12" if sub_spelling == "sub" else "0xC")] + ckeys[6:] + ckeys[:6])
    od = _import(d.text())
    tag = "C08/structure/" + sub_spelling
    ODRecord, ODArray = C.odmod().ODRecord, C.odmod().ODArray
    _check_var(od[0x2010], plain, tag + "/plain")
    ODVariable = C.odmod().ODVariable
    for e in (plain2, plain3):
        sx.prove(isinstance(od[e.index], ODVariable), "an object without ObjectType is a variable", tag + "/plain-kind")
        if isinstance(od[e.index], ODVariable):
            _check_var(od[e.index], e, tag + "/plain-after")
            sx.prove(od[e.index].storage_location is None and od[e.name] is od[e.index], "storage location and name lookup",
                     tag + "/plain-after")
    rec = od[0x2100]
    sx.prove(isinstance(rec, ODRecord) and rec.name == "A record" and rec.storage_location == "RAM", "record object",
             tag + "/record")
    sx.prove(len(rec) == 5, "record sub-indices",
             tag + "/record-subs")
    for m in members:
        _check_var(rec[m.sub], m, tag + "/member")
    arr = od[0x2200]
    sx.prove(isinstance(arr, ODArray) and arr.name == "An array", "array object", tag + "/array")
    for m in amembers:
        _check_var(arr[m.sub], m, tag + "/element")
    _check_var(od[0x2300], dom, tag + "/domain")
    _check_var(od[0x2301], txt, tag + "/string")
    _check_var(od[0x2302], octs, tag + "/octets")
    _check_var(od[0x2303], real, tag + "/real")
    for f in flags:
        _check_var(od[f.index], f, tag + "/boolean")
        sx.prove(isinstance(od[f.index].default, int) and od[f.index].default == f.default, "BOOLEAN default is a number",
                 tag + "/boolean")
    sx.prove(od["A record"] is rec and od["A record.Member A"] is rec[1] and od["A record"]["Member #3 C"] is rec[3] and od["A record.Member #3 C"] is rec[3]
             and od[0x2100][1] is rec["Member A"], "lookup by index, name and Parent.Child", tag + "/lookup")
    # every kind of entry is reachable by its name as well, whatever its data type (DOMAIN, strings, REAL)
    for e in (dom, txt, octs, real):
        sx.prove(e.name in od and od[e.name] is od[e.index], "lookup by name of a %s entry" % e.name, tag + "/lookup-by-name")
    sx.prove(od["A record.Blob member"] is rec[0x1C] and rec["Blob member"] is rec[0x1C], "DOMAIN member by name",
             tag + "/lookup-by-name")
    _check_var(od[0x2304], dotted, tag + "/dotted")
    sx.prove(od["Max. motor speed"] is od[0x2304] and "Max. motor speed" in od, "top-level name containing a full stop",
             tag + "/dotted-lookup")
    sx.prove(od.comments == "\n".join(clines), "comments", tag + "/comments")
    sx.reach("structure")


def compact(with_names, n):
    v = sx.fresh_int("v", 0, 0xFFFFFFFF)
    pdo = sx.fresh_int("pdo", 0, 1)
    tmpl = Entry("tmpl", 0x2400, 1, 0x07, "rw", default=v, default_text=num(v, "hex"), pdo=pdo)
    names = ["Chan %% #%d in" % i for i in range(1, n + 1)] if with_names else None
    d = _base_doc()
    d.compact_array("Compact array", 0x2400, n, tmpl, names)
    od = _import(d.text())
    arr = od[0x2400]
    tag = "C08/compact/%s" % ("names" if with_names else "plain")
    sx.prove(isinstance(arr, C.odmod().ODArray) and arr.name == "Compact array", "array object", tag + "/array")
    sx.prove(arr[0].data_type == 0x05, "sub-index 0 is UNSIGNED8", tag + "/sub0")
    for i in range(1, n + 1):
        m = arr[i]
        sx.prove((m.index == 0x2400) & (m.subindex == i) & (m.data_type == 0x07) & _is(m.default, v)
                 & (m.access_type == "rw") & (m.pdo_mappable == (pdo != 0)), "expanded compact sub-object", tag + "/member")
        if with_names:
            sx.prove(m.name == names[i - 1], "expanded sub-object name", tag + "/member-name")
            sx.prove(od["Compact array.%s" % names[i - 1]] is m, "lookup of an expanded member by name", tag + "/lookup")
    sx.reach("compact")


def device_info(omit=None, order="file"):
    """omit: one DeviceInfo key left out of the file (every key is optional: the others must still be taken);
    order: keys in the usual order or reversed (the section is a key/value table, not a sequence)"""
    vn = sx.fresh_int("vendor", 0, 0xFFFFFFFF)
    pn = sx.fresh_int("product", 0, 0xFFFFFFFF)
    rn = sx.fresh_int("revision", 0, 0xFFFFFFFF)
    nrx = sx.fresh_int("nrx", 0, 512)
    ntx = sx.fresh_int("ntx", 0, 512)
    vals = iter([num(vn, "hex"), num(pn), num(rn, "hexl"), num(nrx), num(ntx)])
    d = Doc()
    lines = [l % next(vals) if "%s" in l else l for l in DEVICE_INFO]
    if omit is not None:
        lines = [l for l in lines if l.split("=")[0] != omit]
    if order == "reversed":
        lines = lines[::-1]
    d.section("DeviceInfo", lines)
    d.section("DummyUsage", ["Dummy0001=0", "Dummy0002=1", "Dummy0003=1", "Dummy0004=0", "Dummy0005=1",
                             "Dummy0006=0", "Dummy0007=1"])
    d.section("DeviceComissioning", ["NodeID=0x11", "Baudrate=250"])
    od = _import(d.text(), ".dcf")
    di = od.device_information
    tag = "C08/device-info"
    expect = dict(vendor_number=("VendorNumber", vn), product_number=("ProductNumber", pn),
                  revision_number=("RevisionNumber", rn), nr_of_RXPDO=("NrOfRXPDO", nrx), nr_of_TXPDO=("NrOfTXPDO", ntx),
                  vendor_name=("VendorName", "ACME motors"), product_name=("ProductName", "Drive 3000"),
                  order_code=("OrderCode", "D3K-1"), simple_boot_up_master=("SimpleBootUpMaster", False),
                  simple_boot_up_slave=("SimpleBootUpSlave", True), granularity=("Granularity", 8),
                  dynamic_channels_supported=("DynamicChannelsSupported", False),
                  group_messaging=("GroupMessaging", False), LSS_supported=("LSS_Supported", True))
    for attr, (key, want) in expect.items():
        got = getattr(di, attr)
        if key == omit:
            continue          # what an absent key becomes is not part of the statement
        else:
            sx.prove(got is not None and got == want, "DeviceInfo %s" % key, tag + "/" + key)
    rates = [r for k, r in (("BaudRate_125", 125000), ("BaudRate_250", 250000), ("BaudRate_500", 500000)) if k != omit]
    sx.prove(sorted(di.allowed_baudrates) == rates, "allowed bit rates", tag + "/baudrates")
    sx.prove(od.node_id == 0x11 and od.bitrate == 250000, "node id and bit rate", tag + "/commissioning")
    if omit is None:
        # a second, different file imported afterwards: each dictionary describes its own file
        d2 = Doc()
        d2.section("DeviceInfo", ["VendorName=Other vendor", "VendorNumber=0x99", "ProductName=Valve", "ProductNumber=7",
                                  "BaudRate_10=1", "BaudRate_1000=1", "BaudRate_250=0", "NrOfRXPDO=1", "NrOfTXPDO=0",
                                  "LSS_Supported=0", "Granularity=0"])
        d2.section("Comments", ["Lines=1", "Line1=another file"])
        d2.section("DeviceComissioning", ["NodeID=3", "Baudrate=10"])
        od2 = _import(d2.text(), ".dcf")
        di2 = od2.device_information
        sx.prove(sorted(di2.allowed_baudrates) == [10000, 1000000] and di2.vendor_name == "Other vendor"
                 and di2.vendor_number == 0x99 and di2.LSS_supported is False and od2.node_id == 3
                 and od2.bitrate == 10000 and od2.comments == "another file", "second file imported on its own",
                 tag + "/second-import")
        sx.prove(sorted(di.allowed_baudrates) == [125000, 250000, 500000] and di.vendor_name == "ACME motors"
                 and od.node_id == 0x11 and od.bitrate == 250000 and di.LSS_supported is True,
                 "first dictionary changed by a later import", tag + "/first-changed")
    for i, used in enumerate([0, 1, 1, 0, 1, 0, 1], 1):
        sx.prove((i in od) == bool(used), "dummy usage", tag + "/dummy")
        if used:
            sx.prove(od[i].data_type == i and od[i].access_type == "const", "dummy entry", tag + "/dummy-entry")
    sx.reach("device-info")


def jobs(tier):
    out = []
    q = tier == "quick"
    for code in S301.INT_TYPES:
        for spelling in ("dec", "hex"):
            for access, doc in ((("rw", "eds"), ("const", "dcf"), ("rwr", "dcf"), ("rww", "eds")) if q else
                                (("rw", "eds"), ("ro", "eds"), ("wo", "dcf"), ("const", "dcf"), ("RW", "dcf"),
                                 ("rwr", "eds"), ("rww", "dcf"), ("Ro", "eds"))):
                out.append(dict(func="int_variable", params=dict(code=code, access=access, spelling=spelling,
                                                                 doc_type=doc)))
    for code in (0x05, 0x03, 0x15, 0x18):
        for present in ("value-only", "default-only", "neither"):
            out.append(dict(func="int_variable", params=dict(code=code, access="rw", spelling="dec", doc_type="dcf",
                                                             present=present)))
    for form in ("prefix", "suffix"):
        for source in ("arg", "file", "both", "none"):
            for spaces in (0, 1):
                out.append(dict(func="nodeid", params=dict(form=form, source=source, spaces=spaces)))
            if source in ("file", "both"):
                out.append(dict(func="nodeid", params=dict(form=form, source=source, spaces=0, late=1)))
    for form in ("prefix", "suffix"):
        for lit in ("0x180", "0x18D", "0xE", "0xDE", "0x7ED", "0x1d", "399", "0", "0x200", "0xABCDE"):
            out.append(dict(func="nodeid_literal", params=dict(form=form, literal=lit)))
    for sp in ("sub", "Sub"):
        out.append(dict(func="structure", params=dict(sub_spelling=sp)))
    for wn in (0, 1):
        for n in ((1, 3, 17) if q else (1, 2, 3, 8, 17, 20, 254)):
            out.append(dict(func="compact", params=dict(with_names=wn, n=n)))
    out.append(dict(func="device_info", params={}))
    out.append(dict(func="device_info", params=dict(order="reversed")))
    for l in DEVICE_INFO:
        out.append(dict(func="device_info", params=dict(omit=l.split("=")[0])))
    combos = [[0x02, 0x07], [0x10, 0x05, 0x15]] if q else [[0x02, 0x07], [0x10, 0x05, 0x15], [0x12, 0x13, 0x14, 0x1B],
                                                          [0x03, 0x04, 0x06, 0x16, 0x18], [0x19, 0x1A, 0x02, 0x10]]
    for codes in combos:
        for sp in ("dec", "hex"):
            out.append(dict(func="multi_variable", params=dict(codes=codes, spelling=sp), weight=2 ** len(codes)))
    return out


META = dict(
    level_text="Bounded symbolic execution of import_od / import_eds / build_variable / _convert_variable / "
               "_signed_int_from_hex / _calc_bit_length / copy_variable on EDS/DCF texts produced by an independent "
               "writer from structural templates: the numeric field values (default, parameter value, limits incl. "
               "two's-complement hex limits of every signed width, $NODEID offsets, node id, PDO flag, identity numbers) "
               "are symbolic number tokens that travel as ordinary text through the real RawConfigParser and regular "
               "expressions and are resolved by the substituted int(text, base).",
    level_note="The *structure* of the text is enumerated by templates, not symbolic: tokenisation of arbitrary "
               "well-formed files by configparser/re is beyond the encoding. Token facts relied on: int(str(v),0)==v, "
               "int('0x'+format(v,'X'),0)==v for v>=0, format(v,'X') of a negative starts with '-'.",
    bounds=dict(quick="16 integer types x {decimal, hex} spelling x 2 (access type, document type) pairs; $NODEID+x / "
                      "x+$NODEID with/without spaces x node id from argument / file / both / absent; record, array, "
                      "missing ObjectType, DOMAIN, strings, REAL, factor/unit/description, sub/Sub spelling; compact arrays "
                      "with and without name list (1, 3 entries); device info, dummy usage, comments; files with 2-3 symbolic "
                      "variables of different types",
                thorough="5 access spellings per type; compact arrays up to 20 entries; files with up to 5 symbolic variables"),
    outside_bounds=["arbitrary well-formed text (structure is enumerated)", "REAL defaults and Factor as symbolic values",
                    "Baudrate / DummyNNNN values as symbolic (parsed by configparser.getint)",
                    "hex spelling of negative defaults (not defined by the property)"],
    assumptions=["writer follows CiA 306 section/keyword layout"],
    stubs=["int()/hex()/format() with number tokens", "dict displays -> SymDict", "logging"],
    required_reach=["int-dec", "int-hex", "signed", "unsigned", "nodeid-arg", "nodeid-file", "nodeid-both",
                    "nodeid-none", "nodeid-literal", "structure", "compact", "device-info", "multi"],
    limits=dict(quick=dict(), thorough=dict()),
)
