"""C05 - PDO variables occupy exactly their mapped bits."""
from symx import api as sx
from refmodels import cia301 as S301
from harness import common as C

CLAIMED = True


def _node():
    LocalNode = sx.mod("canopen.node.local").LocalNode
    return LocalNode(1, C.typed_od())


def _frame_int(items):
    return sx.le_int(items, False)


def _field_cfg(code, length):
    name = S301.NAMES[code]
    if code in S301.INT_TYPES:
        signed = S301.INT_TYPES[code][2]
    else:
        signed = False
    return name, signed


def field_read(code, length, F):
    """Reading a mapped variable yields exactly its bit field (sign-extended for signed types)."""
    name, signed = _field_cfg(code, length)
    node = _node()
    m = node.tpdo[1]
    m.clear()
    var = m.add_variable(C.TYPE_INDEX[code], 0, length)
    off = sx.fresh_int("off", 0, 8 * F - length)
    var.offset = off
    frame = sx.fresh_bytes("frame", F)
    m.data = sx.mod("builtins").bytearray(frame) if not sx.symbolic() else _ba(frame)
    fi = _frame_int(sx.items(frame))
    field = (fi >> off) & ((1 << length) - 1)
    if signed:
        field = field - (((field >> (length - 1)) & 1) << length)
    key = "C05/read/%s/len%d" % (name, length)
    try:
        if code in (S301.REAL32, S301.REAL64):
            got = var.data
            sx.observe("data", got)
            items = sx.items(got)
            sx.prove(len(items) == length // 8, "REAL field length", key + "/length")
            sx.prove(sx.all_([items[i] == sx.byte_of(field, i) for i in range(min(len(items), length // 8))]),
                     "REAL field bytes are the bit field", key + "/value")
        elif code == S301.BOOLEAN:
            got = var.raw
            sx.observe("raw", got)
            sx.prove(got == (field != 0), "BOOLEAN field value", key + "/value")
        else:
            got = var.raw
            sx.observe("raw", got)
            sx.prove(got == field, "variable value is exactly its bit field", key + "/value")
    except Exception as e:
        sx.observe("exc", C.exc_name(e))
        sx.fail("reading a mapped field raised %s" % C.exc_name(e), key + "/raises")
    sx.reach("read")


def field_reread(code, length, F, how):
    """the value read is a function of the frame held *now*: after a variable has been read, a second frame (received
    with any timestamp, also the same one - interfaces without hardware stamps, replayed logs - or assigned to
    map.data) is decoded afresh"""
    name, signed = _field_cfg(code, length)
    node = _node()
    m = node.tpdo[1]
    m.clear()
    var = m.add_variable(C.TYPE_INDEX[code], 0, length)
    off = sx.fresh_int("off", 0, 8 * F - length)
    var.offset = off
    m.cob_id = 0x181
    f1, f2 = sx.fresh_bytes("f1", F), sx.fresh_bytes("f2", F)
    ts1 = sx.fresh_int("ts1", 0, 1 << 40)
    ts2 = sx.fresh_int("ts2", 0, 1 << 40)
    m.data = _ba(sx.fresh_bytes("z", F)) if sx.symbolic() else sx.mod("builtins").bytearray(F)

    def field(frame):
        v = (_frame_int(sx.items(frame)) >> off) & ((1 << length) - 1)
        if signed:
            v = v - (((v >> (length - 1)) & 1) << length)
        return v
    key = "C05/reread/%s/len%d/%s" % (name, length, how)
    m.on_message(0x181, sx.new_bytearray(sx.items(f1)), ts1)
    sx.prove(var.raw == field(f1), "first frame", key + "/first")
    if how == "receive":
        m.on_message(0x181, sx.new_bytearray(sx.items(f2)), ts2)
    else:
        m.data = _ba(f2) if sx.symbolic() else sx.mod("builtins").bytearray(f2)
    sx.prove(var.raw == field(f2), "second frame is decoded afresh", key + "/second")
    sx.prove(var.raw == field(f2), "and read again", key + "/second")
    sx.reach("reread")


def remap_lookup():
    """variables looked up through the node (node.tpdo[index] / node.tpdo['name']) are those of the *current* mapping:
    after clear() + add_variable() has moved an object to another offset, the same lookups read and write the field
    where it is now"""
    node = _node()
    m = node.tpdo[1]
    a, b, c = C.TYPE_INDEX[0x05], C.TYPE_INDEX[0x06], C.TYPE_INDEX[0x03]      # U8, U16, I16
    names = {i: node.object_dictionary[i].name for i in (a, b, c)}
    m.clear()
    for i in (a, b, c):
        m.add_variable(i)
    for i in (a, b, c):                    # first look-ups, by index and by name
        node.tpdo[i]
        node.tpdo[names[i]]
    m.clear()
    for i in (c, a, b):                    # the same objects in another order: I16 @0, U8 @16, U16 @24
        m.add_variable(i)
    frame = sx.fresh_bytes("frame", 5)
    m.data = _ba(frame) if sx.symbolic() else sx.mod("builtins").bytearray(frame)
    fi = _frame_int(sx.items(frame))
    tag = "C05/remap-lookup"
    exp_c = (fi & 0xFFFF) - (((fi >> 15) & 1) << 16)
    for key_c, key_a, key_b in ((c, a, b), (names[c], names[a], names[b])):
        sx.prove(node.tpdo[key_c].raw == exp_c, "INTEGER16 now at bit 0", tag + "/read")
        sx.prove(node.tpdo[key_a].raw == ((fi >> 16) & 0xFF), "UNSIGNED8 now at bit 16", tag + "/read")
        sx.prove(node.tpdo[key_b].raw == ((fi >> 24) & 0xFFFF), "UNSIGNED16 now at bit 24", tag + "/read")
    v = sx.fresh_int("v", 0, 255)
    node.tpdo[names[a]].raw = v
    new = _frame_int(sx.items(m.data))
    sx.prove(len(sx.items(m.data)) == 5, "frame length unchanged", tag + "/frame-length")
    sx.prove(new == ((fi & ~(0xFF << 16)) | (v << 16)), "a write through the node-level lookup changes exactly the "
             "variable's present field", tag + "/write")
    sx.reach("remap-lookup")


def field_read_concurrent(code, length, F):
    """a frame is received (second thread) while the application reads a mapped variable: every schedule at lock
    granularity plus one preemption at any source line of canopen code.  The value read is the bit field of the frame
    held before or of the frame received - never a mixture of the two."""
    name, signed = _field_cfg(code, length)
    node = _node()
    m = node.tpdo[1]
    m.clear()
    var = m.add_variable(C.TYPE_INDEX[code], 0, length)
    off = sx.fresh_int("off", 0, 8 * F - length)
    var.offset = off
    m.cob_id = 0x181
    f1, f2 = sx.fresh_bytes("f1", F), sx.fresh_bytes("f2", F)
    m.data = _ba(f1) if sx.symbolic() else sx.mod("builtins").bytearray(f1)

    def field(frame):
        v = (_frame_int(sx.items(frame)) >> off) & ((1 << length) - 1)
        if signed:
            v = v - (((v >> (length - 1)) & 1) << length)
        return v
    sched = sx.scheduler(preempt=1)
    sched.spawn(lambda: m.on_message(0x181, sx.new_bytearray(sx.items(f2)), 5), "receiver")
    got = var.raw
    sched.join()
    sx.observe("got", got)
    sx.prove((got == field(f1)) | (got == field(f2)), "value read while a frame arrives is the field of neither frame",
             "C05/concurrent/%s/len%d/torn" % (name, length))
    sx.prove(var.raw == field(f2), "after the reception the new frame is read", "C05/concurrent/%s/len%d/after" % (name, length))
    sx.reach("concurrent-read")


def _ba(frame):
    from symx.symbytes import SymByteArray
    return SymByteArray(sx.items(frame))


def field_write(code, length, F):
    """Writing a value that fits changes exactly the field's bits; the rest of the frame and its
    length stay unchanged; the value reads back."""
    name, signed = _field_cfg(code, length)
    node = _node()
    m = node.tpdo[1]
    m.clear()
    var = m.add_variable(C.TYPE_INDEX[code], 0, length)
    off = sx.fresh_int("off", 0, 8 * F - length)
    var.offset = off
    frame = sx.fresh_bytes("frame", F)
    m.data = sx.mod("builtins").bytearray(frame) if not sx.symbolic() else _ba(frame)
    fi = _frame_int(sx.items(frame))
    mask = (1 << length) - 1
    key = "C05/write/%s/len%d" % (name, length)
    try:
        if code in (S301.REAL32, S301.REAL64):
            val_bytes = sx.fresh_bytes("val", length // 8)
            low = sx.le_int(sx.items(val_bytes), False)
            var.data = val_bytes
        elif code == S301.BOOLEAN:
            b = sx.fresh_bool("val")
            low = sx.ite(b, 1, 0)
            var.raw = b
        else:
            if signed:
                val = sx.fresh_int("val", -(1 << (length - 1)), (1 << (length - 1)) - 1)
            else:
                val = sx.fresh_int("val", 0, mask)
            low = val & mask
            var.raw = val
    except Exception as e:
        sx.observe("exc", C.exc_name(e))
        sx.fail("writing a fitting value raised %s" % C.exc_name(e), key + "/raises")
        return
    new = m.data
    sx.observe("new", new)
    items = sx.items(new)
    sx.prove(len(items) == F, "frame length unchanged", key + "/frame-length")
    if len(items) != F:
        return
    expect = (fi & ~(mask << off)) | (low << off)
    sx.prove(_frame_int(items) == expect, "exactly the field's bits are replaced", key + "/bits")
    # read back
    try:
        if code in (S301.REAL32, S301.REAL64):
            sx.prove(sx.eq_bytes(var.data, val_bytes), "read back", key + "/readback")
        elif code == S301.BOOLEAN:
            sx.prove(var.raw == b, "read back", key + "/readback")
        else:
            sx.prove(var.raw == val, "read back", key + "/readback")
    except Exception as e:
        sx.fail("read back raised %s" % C.exc_name(e), key + "/readback-raises")
    # the frame is replaced (a received PDO, a direct assignment) and the same value is written once more through the
    # same variable object: the write happens again
    frame2 = sx.fresh_bytes("frame2", F)
    m.data = sx.mod("builtins").bytearray(frame2) if not sx.symbolic() else _ba(frame2)
    fi2 = _frame_int(sx.items(frame2))
    try:
        if code in (S301.REAL32, S301.REAL64):
            var.data = val_bytes
        elif code == S301.BOOLEAN:
            var.raw = b
        else:
            var.raw = val
    except Exception as e:
        sx.fail("second write raised %s" % C.exc_name(e), key + "/rewrite-raises")
        return
    items2 = sx.items(m.data)
    sx.prove(len(items2) == F and (_frame_int(items2) == ((fi2 & ~(mask << off)) | (low << off))) is not False,
             "writing the same value again after the frame changed", key + "/rewrite")
    if len(items2) == F:
        sx.prove(_frame_int(items2) == ((fi2 & ~(mask << off)) | (low << off)), "second write of the same value",
                 key + "/rewrite-bits")
    sx.reach("write")


def layout(k):
    """add_variable assigns offset_i = sum of the previous lengths and sizes the frame ceil(total/8)."""
    node = _node()
    m = node.tpdo[1]
    m.clear()
    total = 0
    vs = []
    lens = []
    for i in range(k):
        ln = sx.fresh_int("len%d" % i, 1, 64)
        sx.assume(total + ln <= 64)
        v = m.add_variable(C.TYPE_INDEX[0x05], 0, ln)
        vs.append(v)
        lens.append(ln)
        sx.prove(v.offset == total, "offset is the sum of the previous lengths", "C05/layout/offset")
        total = total + ln
    n = len(m.data)
    sx.observe("n", n)
    sx.prove(8 * n >= total, "frame holds all bits", "C05/layout/size-min")
    sx.prove(8 * n < total + 8, "frame is ceil(total/8) bytes", "C05/layout/size-max")
    sx.prove(sx.all_([v.length == l for v, l in zip(vs, lens)]), "lengths kept", "C05/layout/length")
    sx.reach("layout")


def layout_step():
    """Inductive step of the layout arithmetic: from any map whose running bit count is L (the invariant
    `length == sum of the mapped lengths`, established by clear() and kept by this step), add_variable places
    the new variable at offset L, adds its length to the count and sizes the frame ceil((L+len)/8)."""
    node = _node()
    m = node.tpdo[1]
    m.clear()
    sx.prove(m.length == 0 and len(m.map) == 0, "clear() establishes the invariant", "C05/layout-step/base")
    L = sx.fresh_int("L", 0, 63)
    ln = sx.fresh_int("len", 1, 64)
    sx.assume(L + ln <= 64)
    m.length = L
    v = m.add_variable(C.TYPE_INDEX[0x05], 0, ln)
    sx.prove(v.offset == L, "offset is the running bit count", "C05/layout-step/offset")
    sx.prove(v.length == ln, "length kept", "C05/layout-step/length")
    sx.prove(m.length == L + ln, "running bit count advanced by the length", "C05/layout-step/count")
    sx.prove(len(m.map) == 1 and m.map[0] is v, "variable appended", "C05/layout-step/appended")
    n = len(m.data)
    sx.observe("n", n)
    sx.prove(8 * n >= L + ln, "frame holds all bits", "C05/layout-step/size-min")
    sx.prove(8 * n < L + ln + 8, "frame is ceil(total/8) bytes", "C05/layout-step/size-max")
    sx.reach("layout-step")


def layout_concrete(lens):
    """Concrete layouts of 6..8 variables end to end (offsets, frame size) and independence of neighbours:
    writing variable j (symbolic value) leaves every other variable's value unchanged."""
    node = _node()
    m = node.tpdo[1]
    m.clear()
    vs = [m.add_variable(C.TYPE_INDEX[0x05], 0, ln) for ln in lens]
    total = sum(lens)
    sx.prove(len(m.data) == (total + 7) // 8, "frame size", "C05/layout-concrete/size")
    off = 0
    for v, ln in zip(vs, lens):
        sx.prove(v.offset == off and v.length == ln, "offset/length", "C05/layout-concrete/offset")
        off += ln
    frame = sx.fresh_bytes("frame", len(m.data))
    m.data = sx.mod("builtins").bytearray(frame) if not sx.symbolic() else _ba(frame)
    before = [v.raw for v in vs]
    j = sx.choice(len(lens), "j")
    val = sx.fresh_int("val", 0, (1 << lens[j]) - 1)
    vs[j].raw = val
    after = [v.raw for v in vs]
    sx.observe("after", after)
    for i in range(len(lens)):
        if i == j:
            sx.prove(after[i] == val, "written value reads back", "C05/layout-concrete/readback")
        else:
            sx.prove(after[i] == before[i], "neighbour undisturbed", "C05/layout-concrete/neighbour")
    sx.reach("layout-concrete")


def layout_mixed(spec):
    """Layouts mixing objects of different types mapped with their own bit length (length 0 in the spec) or a
    sub-byte length: absolute bit positions in the frame, frame size, neighbours."""
    node = _node()
    m = node.tpdo[1]
    m.clear()
    vs, lens = [], []
    for code, ln in spec:
        v = m.add_variable(C.TYPE_INDEX[code], 0, ln) if ln else m.add_variable(C.TYPE_INDEX[code])
        vs.append(v)
        lens.append(ln or S301.width(code))
    total = sum(lens)
    sx.prove(len(m.data) == (total + 7) // 8, "frame size", "C05/layout-mixed/size")
    off = 0
    for v, ln in zip(vs, lens):
        sx.prove(v.offset == off and v.length == ln, "offset/length", "C05/layout-mixed/offset")
        off += ln
    F = len(m.data)
    frame = sx.fresh_bytes("frame", F)
    m.data = sx.mod("builtins").bytearray(frame) if not sx.symbolic() else _ba(frame)
    fi = _frame_int(sx.items(frame))
    j = sx.choice(len(spec), "j")
    code, ln = spec[j][0], lens[j]
    name, signed = _field_cfg(code, ln)
    pos = sum(lens[:j])
    mask = (1 << ln) - 1
    if code in (S301.REAL32, S301.REAL64):
        vb = sx.fresh_bytes("val", ln // 8)
        low = sx.le_int(sx.items(vb), False)
        vs[j].data = vb
    elif code == S301.BOOLEAN:
        b = sx.fresh_bool("val")
        low = sx.ite(b, 1, 0)
        vs[j].raw = b
    else:
        val = sx.fresh_int("val", -(1 << (ln - 1)), (1 << (ln - 1)) - 1) if signed else sx.fresh_int("val", 0, mask)
        low = val & mask
        vs[j].raw = val
    items = sx.items(m.data)
    sx.observe("new", m.data)
    sx.prove(len(items) == F, "frame length unchanged", "C05/layout-mixed/frame-length")
    if len(items) == F:
        sx.prove(_frame_int(items) == ((fi & ~(mask << pos)) | (low << pos)),
                 "exactly the bits at the variable's absolute position change", "C05/layout-mixed/bits")
    sx.reach("layout-mixed")


def layout_reread(prior, wide=None):
    """The layout read from the configuration (here: from the dictionary) starts at bit 0 whatever the map held
    before (prior add_variable calls, an earlier read): offsets are the running sum, the frame is ceil(total/8)."""
    od = C.typed_od()
    mp = od[0x1A00]
    od[0x1800][1].default = 0x183
    od[0x1800][2].default = 255
    spec = [(C.TYPE_INDEX[0x01], 1), (C.TYPE_INDEX[0x06], 16), (C.TYPE_INDEX[0x02], 3), (C.TYPE_INDEX[0x07], 32)]
    if wide is not None:
        spec = [(C.TYPE_INDEX[wide], 64)]          # one object that fills the PDO
    mp[0].default = len(spec)
    for i, (idx, ln) in enumerate(spec, 1):
        mp[i].default = (idx << 16) | ln
    node = sx.mod("canopen.node.local").LocalNode(1, od)
    net = sx.mod("canopen.network").Network()
    net.send_message = lambda *a, **k: None
    net.add_node(node)
    m = node.tpdo[1]
    for i in range(prior):
        m.add_variable(C.TYPE_INDEX[0x05], 0, sx.fresh_int("p%d" % i, 1, 8))
    for rnd in (1, 2):
        m.read(from_od=True)
        tag = "C05/layout-reread/%d" % rnd
        sx.prove(len(m.map) == len(spec), "mapped objects", tag + "/count")
        off = 0
        for v, (idx, ln) in zip(m.map, spec):
            sx.prove((v.index == idx) & (v.offset == off) & (v.length == ln), "offset is the running sum from bit 0",
                     tag + "/offset")
            off += ln
        sx.prove(len(m.data) == (off + 7) // 8, "frame is ceil(total/8) bytes", tag + "/size")
    sx.reach("layout-reread")


def default_lengths():
    """An object mapped without a custom length occupies its own bit length."""
    node = _node()
    m = node.tpdo[1]
    for code in list(S301.INT_TYPES) + [S301.REAL32, S301.REAL64]:
        m.clear()
        v = m.add_variable(C.TYPE_INDEX[code])
        sx.prove(v.length == S301.width(code), "own bit length", "C05/layout/own-length")
        sx.prove(len(m.data) == S301.width(code) // 8, "frame size", "C05/layout/own-size")
    sx.reach("own-length")


def _configs():
    out = []
    for code, (name, w, signed) in S301.INT_TYPES.items():
        lens = [w] if w > 8 else list(range(1, 9))
        for ln in lens:
            out.append((code, ln))
    out.append((S301.BOOLEAN, 1))
    out.append((S301.BOOLEAN, 8))
    out.append((S301.REAL32, 32))
    out.append((S301.REAL64, 64))
    return out


def jobs(tier):
    out = []
    out.append(dict(func="remap_lookup", params={}))
    for code, length in ((0x03, 16), (0x02, 3), (0x07, 32)):
        out.append(dict(func="field_read_concurrent", params=dict(code=code, length=length, F=4 if length < 32 else 8), weight=300))
    for code, length in ((0x06, 16), (0x02, 3), (0x07, 32), (0x03, 16)):
        for how in ("receive", "assign"):
            out.append(dict(func="field_reread", params=dict(code=code, length=length, F=8, how=how), weight=5))
    for code, ln in _configs():
        for F in range(1, 9):
            if 8 * F < ln:
                continue
            w = 3 if ln > 32 else 1
            out.append(dict(func="field_read", params=dict(code=code, length=ln, F=F), weight=w))
            out.append(dict(func="field_write", params=dict(code=code, length=ln, F=F), weight=w))
    for k in range(1, (4 if tier == "quick" else 5) + 1):
        out.append(dict(func="layout", params=dict(k=k), weight=k))
    out.append(dict(func="default_lengths", params={}))
    out.append(dict(func="layout_step", params={}, weight=4))
    for prior in (0, 1, 3):
        out.append(dict(func="layout_reread", params=dict(prior=prior)))
    for wide in (0x1B, 0x15, 0x11):
        out.append(dict(func="layout_reread", params=dict(prior=0, wide=wide)))
    concrete = [[8] * 8, [1, 2, 3, 4, 5, 6, 7, 8], [1, 1, 1, 1, 1, 1, 1, 8], [3, 5, 7, 2, 6, 8, 1]]
    if tier == "thorough":
        concrete += [[7, 1, 7, 1, 7, 1, 8, 8], [1] * 8, [2, 6, 8, 8, 8, 8, 8, 8], [5, 3, 6, 1, 7, 4, 2], [5, 5, 5, 5, 5, 5, 5, 5],
                     [8, 1, 2, 3, 4, 5, 6, 7], [4] * 8]
    mixed = [[[0x01, 1], [0x06, 0], [0x02, 3]], [[0x05, 5], [0x07, 0], [0x03, 0], [0x01, 1]],
             [[0x02, 3], [0x10, 0], [0x08, 0], [0x05, 4]], [[0x01, 1], [0x01, 1], [0x15, 0], [0x02, 6]]]
    if tier == "thorough":
        mixed += [[[0x05, k], [c, 0], [0x02, 3]] for k in range(1, 8) for c in (0x03, 0x04, 0x06, 0x07, 0x08, 0x10, 0x12, 0x13, 0x16, 0x18)]
        mixed += [[[0x01, 1], [0x11, 0]], [[0x02, 7], [0x14, 0], [0x01, 1]], [[0x05, 2], [0x19, 0], [0x05, 6]],
                  [[0x01, 1]] * 8 + [[0x1A, 0]], [[0x06, 0], [0x05, 4], [0x06, 0], [0x05, 4], [0x06, 0], [0x05, 8]]]
    for spec in mixed:
        out.append(dict(func="layout_mixed", params=dict(spec=spec), weight=len(spec)))
    for lens in concrete:
        out.append(dict(func="layout_concrete", params=dict(lens=lens), weight=len(lens)))
    return out


META = dict(
    level_text="Bounded symbolic execution of PdoVariable.get_data/set_data and PdoMap.add_variable: for every "
               "integer type, BOOLEAN and REAL32/64, every frame length 1..8, the bit offset (0..8F-len), the whole "
               "frame content and the written value are symbolic; the oracle is the 64-bit little-endian bit-field "
               "specification. All paths explored, obligations are unsat queries. The layout arithmetic is proved "
               "separately for k symbolic lengths.",
    level_note="Decomposition: a layout influences a variable only through its offset, its length and the frame "
               "length (offset assignment itself is proved by the layout harness). Trusted: z3, struct/bytes models "
               "(cross-checked natively on every sampled path).",
    bounds=dict(quick="all 16 integer types (8-bit types with field lengths 1..8), BOOLEAN (1 and 8 bits), REAL32/64; "
                      "frame length F=1..8 bytes; offset symbolic over 0..8F-len; frame content and value fully "
                      "symbolic; layout arithmetic for k<=4 variables with symbolic lengths, plus the inductive "
                      "layout step (symbolic running bit count 0..63 and length 1..64) and 4 concrete layouts of 7..8 "
                      "sub-byte/byte fields with a symbolic frame and a symbolic written value; 4 mixed-type layouts (own lengths and sub-byte "
                      "fields, absolute bit positions)",
                thorough="as quick; layout arithmetic for k<=5 (k=6 ran past 800 s); 11 concrete layouts of 7..8 sub-byte/byte fields; 79 mixed-type layouts (every wide type after 1..7 padding bits)"),
    outside_bounds=["frames longer than 8 bytes (CAN classic limit of the property)", "values that do not fit the "
                    "field", "sub-byte fields of multi-byte types (not in the statement)"],
    assumptions=["offset/length attributes set directly on the PdoVariable for the field harness (the layout "
                 "harness proves add_variable computes them as the running sum)"],
    stubs=["struct", "bytes", "bytearray", "math.ceil on exact rationals", "logging -> null"],
    required_reach=["reread", "remap-lookup", "concurrent-read", "read", "write", "layout", "own-length", "layout-step", "layout-concrete", "layout-mixed", "layout-reread"],
    limits=dict(quick=dict(query_timeout_ms=60000), thorough=dict(query_timeout_ms=300000, crosscheck_every=5, crosscheck_max=30)),
    validate_every=dict(quick=3, thorough=1),
)
