"""C04 - Data type codec is the exact CiA 301 representation and never silently wraps."""
from symx import api as sx
from refmodels import cia301 as S301

BIG = 1 << 100


def _var(code):
    od = sx.mod("canopen.objectdictionary")
    var = od.ODVariable("x", 0x2000, 0)
    var.data_type = code
    return var


def int_encode(code, limits=False):
    """(a): every v in [-2^100, 2^100]: in range => exact bytes and decode inverse; out of range
    => an error, never bytes.  With `limits` the entry carries LowLimit/HighLimit: they are advisory (a value beyond
    them is logged), the codec's behaviour is the same."""
    name, w, signed = S301.INT_TYPES[code]
    lo, hi = S301.int_range(code)
    var = _var(code)
    if limits:
        var.min, var.max = max(lo, -3), min(hi, 5)
        sx.reach("limits")
    v = sx.fresh_int("v", -BIG, BIG)
    inrange = (v >= lo) & (v <= hi)
    try:
        data = var.encode_raw(v)
    except Exception as e:
        sx.observe("encode_exc", type(e).__name__)
        sx.reach("rejected")
        sx.prove(sx.not_(inrange), "in-range value rejected", "C04/encode/%s/rejects-in-range" % name)
        return
    sx.observe("data", data)
    sx.reach("encoded")
    sx.prove(inrange, "out-of-range value encoded instead of rejected",
             "C04/encode/%s/accepts-out-of-range" % name)
    sx.prove(len(data) == w // 8, "encoded length", "C04/encode/%s/length" % name)
    items = sx.items(data)
    sx.prove(sx.all_([items[i] == sx.byte_of(v, i) for i in range(min(len(items), w // 8))]),
             "bytes are little-endian two's complement", "C04/encode/%s/bytes" % name)
    back = var.decode_raw(data)
    sx.observe("back", back)
    sx.prove(back == v, "decode(encode(v)) == v", "C04/roundtrip/%s" % name)


def int_decode(code, container="bytes"):
    """(b): arbitrary w/8 bytes decode to the spec value and re-encode to themselves.  container='bytearray':
    the pattern arrives in a mutable buffer (what a bus interface hands to callbacks): decoding must leave the
    caller's buffer alone, so that decoding it again (a second subscriber) gives the same value."""
    name, w, signed = S301.INT_TYPES[code]
    var = _var(code)
    data = sx.fresh_bytes("d", w // 8)
    if container == "bytearray":
        buf = sx.new_bytearray(sx.items(data))
        val = var.decode_raw(buf)
        sx.prove(len(buf) == w // 8 and sx.eq_bytes(sx.mkbytes(sx.items(buf)), data) is not False,
                 "decoding changed the caller's buffer", "C04/decode/%s/input-mutated" % name)
        try:
            val2 = var.decode_raw(buf)
            sx.prove(val2 == val, "decoding the same buffer twice", "C04/decode/%s/twice" % name)
        except Exception as e:
            sx.observe("exc", type(e).__name__)
            sx.fail("decoding the same buffer a second time raised %s" % type(e).__name__,
                    "C04/decode/%s/twice-raises" % name)
    else:
        val = var.decode_raw(data)
    sx.observe("val", val)
    sx.reach("decoded")
    sx.prove(val == sx.le_int(sx.items(data), signed), "decoded value", "C04/decode/%s/value" % name)
    again = var.encode_raw(val)
    sx.observe("again", again)
    sx.prove(sx.eq_bytes(again, data), "encode(decode(b)) == b", "C04/decode/%s/reencode" % name)


def wrong_length(code, n):
    """(c): a byte string of the wrong length is never decoded into a number."""
    name = S301.NAMES[code]
    var = _var(code)
    data = sx.fresh_bytes("d", n)
    try:
        val = var.decode_raw(data)
    except Exception as e:
        sx.observe("exc", type(e).__name__)
        sx.reach("wrong-length-rejected")
        return
    sx.observe("val", val)
    sx.fail("wrong-length bytes decoded into a number", "C04/decode/%s/wrong-length-%d" % (name, n))


def decode_after_rejection(code, n):
    """a refused wrong-length pattern leaves nothing behind: a right-length pattern of the same type (any variable, the
    packers are shared) decodes to its value afterwards"""
    name, w, signed = S301.INT_TYPES[code]
    var = _var(code)
    try:
        var.decode_raw(sx.fresh_bytes("junk", n))
    except Exception:
        pass
    data = sx.fresh_bytes("d", w // 8)
    try:
        val = _var(code).decode_raw(data)
    except Exception as e:
        sx.observe("exc", type(e).__name__)
        sx.fail("valid pattern refused after a rejected one", "C04/decode/%s/after-rejection-raises" % name)
        return
    sx.prove(val == sx.le_int(sx.items(data), signed), "decoded value after a rejected pattern",
             "C04/decode/%s/after-rejection" % name)
    sx.reach("after-rejection")


def retyped(code1, code2):
    """the codec follows the variable's current data type: one variable object is used as code1, then retyped to code2"""
    var = _var(code1)
    lo1, hi1 = S301.int_range(code1)
    var.encode_raw(sx.fresh_int("v1", lo1, hi1))
    len(var)
    var.data_type = code2
    name2, w2, signed2 = S301.INT_TYPES[code2]
    lo2, hi2 = S301.int_range(code2)
    v2 = sx.fresh_int("v2", lo2, hi2)
    tag = "C04/retyped/%s->%s" % (S301.NAMES[code1], name2)
    sx.prove(len(var) == w2, "bit length follows the data type", tag + "/len")
    try:
        data = var.encode_raw(v2)
    except Exception as e:
        sx.observe("exc", type(e).__name__)
        sx.fail("in-range value refused after retyping", tag + "/raises")
        return
    it = sx.items(data)
    sx.prove(len(it) == w2 // 8 and sx.all_([it[i] == sx.byte_of(v2, i) for i in range(min(len(it), w2 // 8))]) is not False,
             "encoding follows the data type", tag + "/length")
    if len(it) == w2 // 8:
        sx.prove(sx.all_([it[i] == sx.byte_of(v2, i) for i in range(w2 // 8)]), "encoding after retyping", tag + "/bytes")
        sx.prove(var.decode_raw(data) == v2, "decoding after retyping", tag + "/decode")
    sx.reach("retyped")


def bit_length(code):
    var = _var(code)
    sx.observe("len", len(var))
    sx.reach("len")
    sx.prove(len(var) == S301.width(code), "len(var) is the bit width", "C04/len/%s" % S301.NAMES[code])


def boolean():
    var = _var(S301.BOOLEAN)
    b = sx.fresh_bool("b")
    data = var.encode_raw(b)
    sx.observe("data", data)
    items = sx.items(data)
    sx.prove(len(items) == 1, "BOOLEAN is one byte", "C04/bool/length")
    sx.prove(items[0] == sx.ite(b, 1, 0), "BOOLEAN encodes as 0/1", "C04/bool/bytes")
    back = var.decode_raw(data)
    sx.observe("back", back)
    sx.prove(back == b, "BOOLEAN round trip", "C04/bool/roundtrip")
    # the ints 0 and 1 as well
    i = sx.fresh_int("i", 0, 1)
    d2 = var.encode_raw(i)
    sx.observe("d2", d2)
    sx.prove(sx.items(d2)[0] == i, "BOOLEAN from int", "C04/bool/int")
    sx.reach("bool")


def real(code, limits=False):
    name = S301.NAMES[code]
    var = _var(code)
    if limits:
        var.min, var.max = 1.5, 2.5
    x = sx.fresh_float("x")
    sx.assume(sx.not_(sx.fisnan(x)))
    if code == S301.REAL32:
        ovf = sx.f32_overflows(x)
        try:
            data = var.encode_raw(x)
        except Exception as e:
            sx.observe("exc", type(e).__name__)
            sx.reach("real32-overflow-rejected")
            sx.prove(ovf, "representable REAL32 rejected", "C04/real32/rejects")
            return
        sx.prove(sx.not_(ovf), "REAL32 overflow encoded", "C04/real32/overflow-accepted")
        sx.assume(sx.f32_exact(x))
        bits = sx.f32_bits(x)
        n = 4
    else:
        data = var.encode_raw(x)
        bits = sx.f64_bits(x)
        n = 8
    sx.observe("data", data)
    items = sx.items(data)
    sx.prove(len(items) == n, "REAL length", "C04/%s/length" % name)
    sx.prove(sx.all_([items[i] == sx.byte_of(bits, i) for i in range(min(n, len(items)))]),
             "bytes are the IEEE 754 image", "C04/%s/bytes" % name)
    back = var.decode_raw(data)
    sx.observe("back_bits", sx.f64_bits(back))
    sx.prove(sx.f64_bits(back) == sx.f64_bits(x), "REAL round trip (bit exact)", "C04/%s/roundtrip" % name)
    sx.reach("real")


def real_specials(code, order):
    """the special values of the statement, encoded one after another on one process (an encoder must not
    carry state from one value to the next): +-0.0, +-inf, smallest subnormal, largest finite"""
    import struct as _st
    name = S301.NAMES[code]
    var = _var(code)
    fmt = "<f" if code == S301.REAL32 else "<d"
    tiny = 1.401298464324817e-45 if code == S301.REAL32 else 5e-324
    big = 3.4028234663852886e+38 if code == S301.REAL32 else 1.7976931348623157e+308
    vals = [0.0, -0.0, float("inf"), float("-inf"), tiny, -tiny, big, -big, 1.0, -1.0]
    if order:
        vals = vals[::-1]
    for v in vals:
        data = var.encode_raw(v)
        sx.prove(bytes(data) == _st.pack(fmt, v), "IEEE 754 image of %r" % v, "C04/%s/special-bytes" % name)
        back = var.decode_raw(data)
        sx.prove(_st.pack(fmt, back) == _st.pack(fmt, v), "round trip of %r" % v, "C04/%s/special-roundtrip" % name)
    # integers in a row as well
    ivar = _var(0x04)
    for v in (0, -1, 1, -(1 << 31), (1 << 31) - 1, 0):
        sx.prove(bytes(ivar.encode_raw(v)) == _st.pack("<l", v), "INTEGER32 image", "C04/INTEGER32/special-bytes")
    sx.reach("real-specials")


def real_decode(code):
    """every non-NaN bit pattern decodes to the IEEE value and re-encodes to itself."""
    name = S301.NAMES[code]
    var = _var(code)
    n = S301.width(code) // 8
    data = sx.fresh_bytes("d", n)
    val = var.decode_raw(data)
    sx.assume(sx.not_(sx.fisnan(val)))
    again = var.encode_raw(val)
    sx.observe("again", again)
    sx.prove(sx.eq_bytes(again, data), "REAL encode(decode(b)) == b", "C04/%s/reencode" % name)
    sx.reach("real-decode")


def text(code, n):
    name = S301.NAMES[code]
    var = _var(code)
    if code == S301.VISIBLE_STRING:
        s = sx.fresh_str("s", n, 0, 127)
    else:
        s = sx.fresh_str("s", n, 0, 0xFFFF)
        for ch in s:
            sx.assume(sx.not_((_cp(ch) >= 0xD800) & (_cp(ch) <= 0xDFFF)))
    if n:
        sx.assume(_cp(s[n - 1]) != 0)       # stated precondition: no trailing NUL
    data = var.encode_raw(s)
    sx.observe("data", data)
    items = sx.items(data)
    if code == S301.VISIBLE_STRING:
        sx.prove(len(items) == n, "ASCII length", "C04/visible/length")
        sx.prove(sx.all_([items[i] == _cp(s[i]) for i in range(min(n, len(items)))]),
                 "ASCII bytes", "C04/visible/bytes")
    else:
        sx.prove(len(items) == 2 * n, "UTF-16 length", "C04/unicode/length")
        sx.prove(sx.all_([(items[2 * i] == (_cp(s[i]) & 0xFF)) & (items[2 * i + 1] == (_cp(s[i]) >> 8))
                          for i in range(min(n, len(items) // 2))]), "UTF-16-LE bytes", "C04/unicode/bytes")
    back = var.decode_raw(data)
    sx.observe("back", back)
    sx.prove(back == s, "text round trip", "C04/%s/roundtrip" % name)
    sx.reach("text")


def text_after_odd(code, first):
    """decoding is a function of the bytes alone: a buffer that ends in the middle of a character (odd length, lone
    lead surrogate, undecodable byte - the decoder ignores what it cannot decode), decoded by one variable, has no
    influence on what the same or another variable decodes afterwards.  Concrete texts: the codecs run natively."""
    var, other = _var(code), _var(code)
    tag = "C04/%s/after-odd" % S301.NAMES[code]
    try:
        var.decode_raw(bytes.fromhex(first))
    except Exception:          # noqa: BLE001 - rejecting the malformed buffer is fine
        pass
    for v, txt in ((var, "abc"), (other, "Speed 1"), (var, ""), (other, "x")):
        data = v.encode_raw(txt)
        exp = txt.encode("ascii" if code == S301.VISIBLE_STRING else "utf_16_le")
        sx.prove(bytes(sx.items(data)) == exp, "encoding", tag + "/bytes")
        sx.prove(v.decode_raw(data) == txt, "text round trip after a malformed buffer", tag + "/roundtrip")
        sx.prove(v.decode_raw(bytearray(exp)) == txt, "decode from a bytearray", tag + "/roundtrip")
    sx.reach("text-after-odd")


def _cp(ch):
    from symx import symstr
    if isinstance(ch, symstr.SymStr):
        return ch._cps[0]
    return ord(ch)


def jobs(tier):
    out = []
    for first in ("610062", "61", "3dd8", "3dd800", "ff", "6162e9", ""):
        for code in (S301.VISIBLE_STRING, S301.UNICODE_STRING):
            out.append(dict(func="text_after_odd", params=dict(code=code, first=first)))
    for code in S301.INT_TYPES:
        w = S301.INT_TYPES[code][1] // 8
        for n in (w + 1, 8, 9):
            if n != w:
                out.append(dict(func="decode_after_rejection", params=dict(code=code, n=n)))
    for c1, c2 in ((0x03, 0x07), (0x07, 0x03), (0x05, 0x16), (0x10, 0x1B), (0x15, 0x02), (0x18, 0x06)):
        out.append(dict(func="retyped", params=dict(code1=c1, code2=c2)))
    for code in S301.INT_TYPES:
        out.append(dict(func="int_encode", params=dict(code=code)))
        out.append(dict(func="int_encode", params=dict(code=code, limits=True)))
        out.append(dict(func="int_decode", params=dict(code=code)))
        out.append(dict(func="int_decode", params=dict(code=code, container="bytearray")))
    for code in list(S301.INT_TYPES) + [S301.BOOLEAN, S301.REAL32, S301.REAL64]:
        out.append(dict(func="bit_length", params=dict(code=code)))
        w = S301.width(code) // 8
        for n in range(0, 10):
            if n != w:
                out.append(dict(func="wrong_length", params=dict(code=code, n=n)))
    out.append(dict(func="boolean", params={}))
    for code in (S301.REAL32, S301.REAL64):
        out.append(dict(func="real", params=dict(code=code)))
        out.append(dict(func="real", params=dict(code=code, limits=True)))
        out.append(dict(func="real_decode", params=dict(code=code)))
        for order in (0, 1):
            out.append(dict(func="real_specials", params=dict(code=code, order=order)))
    top = 8 if tier == "quick" else 12
    for code in (S301.VISIBLE_STRING, S301.UNICODE_STRING):
        for n in range(0, top + 1):
            out.append(dict(func="text", params=dict(code=code, n=n)))
    return out


CLAIMED = True

META = dict(
    level_text="Bounded symbolic execution of ODVariable.encode_raw/decode_raw/__len__ and the IntegerN/UnsignedN "
               "packers for every numeric type: one symbolic integer covers all |v| <= 2^100, symbolic byte "
               "strings cover every pattern; every path explored, every obligation an unsat query; REAL via z3 "
               "FP; text up to a stated length. Not a proof: bounded by |v| and string length.",
    level_note="Trusted: z3; the pure-Python struct/bytes models (cross-checked on every explored path against "
               "CPython by a native witness run, and by running the repo's 164 tests under the loader).",
    bounds=dict(quick="integers: every v with |v| <= 2^100 per type (one symbolic variable); decode: all "
                      "byte patterns of the exact length; wrong lengths 0..9; REAL: every non-NaN double / every "
                      "non-NaN bit pattern; text: every string of length 0..8 (ASCII 0..127 resp. BMP without "
                      "surrogates, last char not NUL)",
                thorough="as quick, text lengths 0..12"),
    outside_bounds=["|v| > 2^100", "NaN payloads", "float inputs for integer types", "BOOLEAN values other than "
                    "0/1/True/False", "strings with trailing NUL (codec strips them by design)",
                    "strings longer than the bound", "non-BMP characters / lone surrogates"],
    assumptions=["struct module modelled in pure Python over z3 bit-vectors / FP (validated per path against "
                 "CPython's struct by the native witness run and by the repo suite under the loader)",
                 "z3 FP theory for REAL32/REAL64 conversions"],
    stubs=["struct", "bytes", "bytearray", "dict displays -> SymDict", "logging -> null"],
    required_reach=["text-after-odd", "limits", "rejected", "encoded", "decoded", "after-rejection", "retyped", "wrong-length-rejected", "len", "bool", "real",
                    "real32-overflow-rejected", "real-decode", "real-specials", "text"],
    limits=dict(quick=dict(query_timeout_ms=30000), thorough=dict(query_timeout_ms=120000, crosscheck_every=3, crosscheck_max=40)),
)
