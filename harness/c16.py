"""C16 - The EMCY consumer's log and active list mirror the received history."""
from symx import api as sx
from harness import common as C

CLAIMED = True

# CiA 301 emergency error classes, written from the standard (table "emergency error code classes")
CLASSES = [
    (0xFF00, 0x0000, "Error Reset / No Error"),
    (0xFF00, 0x1000, "Generic Error"),
    (0xF000, 0x2000, "Current"),
    (0xF000, 0x3000, "Voltage"),
    (0xF000, 0x4000, "Temperature"),
    (0xFF00, 0x5000, "Device Hardware"),
    (0xF000, 0x6000, "Device Software"),
    (0xFF00, 0x7000, "Additional Modules"),
    (0xF000, 0x8000, "Monitoring"),
    (0xFF00, 0x9000, "External Error"),
    (0xFF00, 0xF000, "Additional Functions"),
    (0xFF00, 0xFF00, "Device Specific"),
]


def emcy():
    return sx.mod("canopen.emcy")


def _frame(name):
    return sx.fresh_bytes(name, 8)


def _fields(frame):
    it = sx.items(frame)
    return it[0] | (it[1] << 8), it[2], it[3:8]


def _same_entry(e, code, reg, data, ts):
    return (e.code == code) & (e.register == reg) & sx.eq_bytes(e.data, sx.mkbytes(data)) & (e.timestamp == ts)


def _mk_entry(i):
    code = sx.fresh_int("pre%d.code" % i, 0, 0xFFFF)
    reg = sx.fresh_byte("pre%d.reg" % i)
    data = sx.fresh_bytes("pre%d.data" % i, 5)
    ts = sx.fresh_int("pre%d.ts" % i, 0, 1 << 40)
    return emcy().EmcyError(code, reg, data, ts)


def step(nlog, nact):
    """Inductive step: arbitrary log (nlog entries) whose last nact entries are active; one frame."""
    cons = emcy().EmcyConsumer()
    pre = [_mk_entry(i) for i in range(nlog)]
    cons.log = list(pre)
    cons.active = list(pre[nlog - nact:]) if nact else []
    calls = []
    cons.add_callback(lambda e: calls.append(("a", e)))
    cons.add_callback(lambda e: calls.append(("b", e)))
    frame = _frame("f")
    ts = sx.fresh_int("ts", 0, 1 << 40)
    code, reg, data = _fields(frame)
    cons.on_emcy(0x81, frame, ts)
    sx.observe("loglen", len(cons.log))
    sx.observe("actlen", len(cons.active))
    sx.prove(len(cons.log) == nlog + 1, "log grows by one", "C16/step/log-length")
    sx.prove(all(a is b for a, b in zip(cons.log, pre)), "earlier log entries untouched", "C16/step/log-prefix")
    e = cons.log[-1]
    sx.observe("entry", [e.code, e.register, e.data, e.timestamp])
    sx.prove(_same_entry(e, code, reg, data, ts), "logged entry has the frame's fields", "C16/step/entry")
    is_reset = (code & 0xFF00) == 0
    # active list: empty after a reset frame, previous + [entry] otherwise
    if len(cons.active) == 0:
        sx.reach("reset-cleared")
        sx.prove(is_reset, "active list emptied without a reset frame", "C16/step/active-cleared")
    else:
        sx.prove(sx.not_(is_reset), "active list kept after a reset frame", "C16/step/active-not-cleared")
        sx.prove(len(cons.active) == nact + 1, "active grows by one", "C16/step/active-length")
        sx.prove(all(a is b for a, b in zip(cons.active, pre[nlog - nact:])) and cons.active[-1] is e,
                 "active = previous active entries + the new entry", "C16/step/active-content")
    sx.prove(len(calls) == 2 and calls[0][0] == "a" and calls[1][0] == "b" and calls[0][1] is e
             and calls[1][1] is e, "each callback once, in order, with the entry", "C16/step/callbacks")
    sx.reach("step")


def long_step(nlog):
    """the step at a long history: one more frame after nlog (concrete) entries"""
    cons = emcy().EmcyConsumer()
    E = emcy().EmcyError
    pre = [E(0x1000 + (i & 0xFF), 1, b"\x00" * 5, i) for i in range(nlog)]
    cons.log = list(pre)
    cons.active = list(pre[-3:])
    frame = _frame("f")
    ts = sx.fresh_int("ts", 0, 1 << 40)
    code, reg, data = _fields(frame)
    cons.on_emcy(0x81, frame, ts)
    sx.prove(len(cons.log) == nlog + 1, "one log entry per frame (long history)", "C16/long/log-length")
    sx.prove(len(cons.log) >= 1 and cons.log[0] is pre[0] and cons.log[nlog - 1] is pre[-1] and
             _same_entry(cons.log[-1], code, reg, data, ts) is not False, "log keeps arrival order (long history)",
             "C16/long/order")
    sx.reach("long-step")


def history(k):
    """k frames from a fresh consumer: log == all entries in order, active == entries since the
    last reset frame."""
    cons = emcy().EmcyConsumer()
    calls = []
    cons.add_callback(lambda e: calls.append(e))
    frames = []
    for i in range(k):
        f = _frame("f%d" % i)
        ts = sx.fresh_int("ts%d" % i, 0, 1 << 40)
        frames.append((f, ts))
        cons.on_emcy(0x81, f, ts)
    sx.prove(len(cons.log) == k, "one log entry per frame", "C16/history/log-length")
    last_reset = -1
    resets = []
    for i, (f, ts) in enumerate(frames):
        code, reg, data = _fields(f)
        sx.prove(_same_entry(cons.log[i], code, reg, data, ts), "log entry i mirrors frame i",
                 "C16/history/entry")
        resets.append((code & 0xFF00) == 0)
    # active list length decides which frame was the last reset
    na = len(cons.active)
    sx.observe("active", na)
    # entries since the last reset: the last na frames are non-reset and frame k-na-1 (if any) is a reset
    sx.prove(sx.all_([sx.not_(resets[i]) for i in range(k - na, k)]), "active entries are non-reset frames",
             "C16/history/active-nonreset")
    if k - na - 1 >= 0:
        sx.prove(resets[k - na - 1], "entry before the active ones is a reset frame", "C16/history/active-start")
    sx.prove(all(cons.active[j] is cons.log[k - na + j] for j in range(na)), "active entries are the log's tail",
             "C16/history/active-tail")
    sx.prove(len(calls) == k and all(calls[i] is cons.log[i] for i in range(k)),
             "callback once per frame in order", "C16/history/callbacks")
    sx.reach("history")


def history_reset(k1, k2):
    """k1 frames, consumer.reset(), k2 frames: log and active mirror the history since the reset"""
    cons = emcy().EmcyConsumer()
    for i in range(k1):
        cons.on_emcy(0x81, _frame("a%d" % i), 1)
    cons.reset()
    sx.prove(len(cons.log) == 0 and len(cons.active) == 0, "reset empties both lists", "C16/reset/empty")
    frames = []
    for i in range(k2):
        f = _frame("f%d" % i)
        ts = sx.fresh_int("ts%d" % i, 0, 1 << 40)
        frames.append((f, ts))
        cons.on_emcy(0x81, f, ts)
    sx.prove(len(cons.log) == k2, "one log entry per frame after reset()", "C16/reset/log-length")
    resets = [(_fields(f)[0] & 0xFF00) == 0 for f, ts in frames]
    na = len(cons.active)
    sx.observe("active", na)
    sx.prove(na <= k2 and sx.all_([sx.not_(resets[i]) for i in range(max(k2 - na, 0), k2)]),
             "active entries are non-reset frames", "C16/reset/active-nonreset")
    if 0 <= k2 - na - 1 < k2:
        sx.prove(resets[k2 - na - 1], "entry before the active ones is a reset frame", "C16/reset/active-start")
    sx.prove(na <= k2 and all(cons.active[j] is cons.log[k2 - na + j] for j in range(min(na, k2))),
             "active entries are the log's tail", "C16/reset/active-tail")
    sx.reach("history-reset")


def reentrant(kind):
    """A callback reacts to a frame in a way that changes the consumer while the frame's callbacks are still
    running: 'nested' - the reaction makes the device send another frame at once (synchronous loopback: e.g. an
    NMT reset answered by an error-reset EMCY); 'reset' - it calls consumer.reset().  Every callback is still
    invoked exactly once per frame, with that frame's entry."""
    cons = emcy().EmcyConsumer()
    f1, f2 = _frame("f1"), _frame("f2")
    t1 = sx.fresh_int("t1", 0, 1 << 40)
    t2 = sx.fresh_int("t2", 0, 1 << 40)
    calls = []
    state = {"fired": False}

    def first(e):
        calls.append(("a", e))
        if not state["fired"]:
            state["fired"] = True
            if kind == "nested":
                cons.on_emcy(0x81, f2, t2)
            else:
                cons.reset()

    cons.add_callback(first)
    cons.add_callback(lambda e: calls.append(("b", e)))
    tag = "C16/reentrant/%s" % kind
    try:
        cons.on_emcy(0x81, f1, t1)
    except Exception as e:
        sx.observe("exc", C_exc(e))
        sx.fail("on_emcy raised %s" % C_exc(e), tag + "/raises")
        return
    c1, r1, d1 = _fields(f1)
    c2, r2, d2 = _fields(f2)
    sx.observe("calls", [(w, e.code, e.timestamp) for w, e in calls])
    if kind == "nested":
        sx.prove(len(calls) == 4 and [w for w, e in calls] == ["a", "a", "b", "b"], "each callback once per frame",
                 tag + "/count")
        if len(calls) == 4:
            sx.prove(_same_entry(calls[0][1], c1, r1, d1, t1) & _same_entry(calls[1][1], c2, r2, d2, t2),
                     "first callback sees each frame's own entry", tag + "/first")
            sx.prove(_same_entry(calls[2][1], c2, r2, d2, t2) & _same_entry(calls[3][1], c1, r1, d1, t1),
                     "later callback sees each frame's own entry once", tag + "/later")
        sx.prove(len(cons.log) == 2, "both frames logged", tag + "/log")
    else:
        sx.prove(len(calls) == 2 and [w for w, e in calls] == ["a", "b"], "each callback once", tag + "/count")
        if len(calls) == 2:
            sx.prove(_same_entry(calls[1][1], c1, r1, d1, t1) & (calls[0][1] is calls[1][1]),
                     "later callback receives the frame's entry", tag + "/later")
    sx.reach("reentrant")


def raising_callback(k):
    """The application's callback raises for some of the frames (EmcyError objects are exceptions meant to be
    raised) or looks at the consumer when it is called: every frame is still logged, the active list still follows
    the resets, and at the time of a callback the frame it is called for is the newest log entry."""
    cons = emcy().EmcyConsumer()
    frames = [_frame("f%d" % i) for i in range(k)]
    stamps = [sx.fresh_int("t%d" % i, 0, 1 << 40) for i in range(k)]
    raise_on = [sx.fresh_bool("raise%d" % i) for i in range(k)]
    seen = []
    state = {"i": 0}

    def cb(e):
        seen.append((len(cons.log), bool(cons.log) and cons.log[-1] is e, len(cons.active)))
        if raise_on[state["i"]]:
            raise e

    cons.add_callback(cb)
    tag = "C16/raising-callback"
    raised = 0
    for i in range(k):
        state["i"] = i
        try:
            cons.on_emcy(0x81, frames[i], stamps[i])
        except emcy().EmcyError:
            raised += 1
        except Exception as e:
            sx.observe("exc", C_exc(e))
            sx.fail("on_emcy raised %s" % C_exc(e), tag + "/raises")
            return
    sx.observe("seen", seen)
    sx.prove(len(cons.log) == k, "one log entry per frame although a callback raised", tag + "/log-length")
    nact = 0
    for i in range(k):
        c, r, d = _fields(frames[i])
        if i < len(cons.log):
            sx.prove(_same_entry(cons.log[i], c, r, d, stamps[i]), "log entry %d is frame %d" % (i, i), tag + "/log-entry")
        nact = 0 if sx.concretize((c & 0xFF00) == 0) else nact + 1
    sx.prove(len(cons.active) == nact, "active list follows the resets", tag + "/active")
    sx.prove(len(seen) == k, "callback invoked once per frame", tag + "/count")
    for i, (nl, last, na) in enumerate(seen):
        sx.prove(nl == i + 1 and last, "at callback time the frame is the newest log entry", tag + "/callback-time")
    sx.reach("raising-callback")


def C_exc(e):
    return type(e).__name__


def producer(n):
    """A message sent by the producer is decoded by the consumer into the same code, register and
    data (zero-padded to five bytes)."""
    prod = emcy().EmcyProducer(0x81)
    cons = emcy().EmcyConsumer()
    sent = []

    class Net:
        def send_message(self, can_id, data, remote=False):
            sent.append((can_id, data, remote))
            cons.on_emcy(can_id, data, 7)
    prod.network = Net()
    code = sx.fresh_int("code", 0, 0xFFFF)
    reg = sx.fresh_byte("reg")
    data = sx.fresh_bytes("data", n)
    if sx.choice(2, "reset"):
        prod.reset(reg, data)
        code = 0
        sx.reach("producer-reset")
    else:
        prod.send(code, reg, data)
    sx.prove(len(sent) == 1 and sent[0][0] == 0x81 and sent[0][2] is False, "one frame on the EMCY COB-ID",
             "C16/producer/frame")
    sx.observe("frame", sent[0][1])
    sx.prove(len(sx.items(sent[0][1])) == 8, "EMCY frame is 8 bytes", "C16/producer/frame-length")
    e = cons.log[-1]
    padded = sx.items(data) + [0] * (5 - n)
    sx.prove((e.code == code) & (e.register == reg) & sx.eq_bytes(e.data, sx.mkbytes(padded)),
             "consumer decodes what the producer sent", "C16/producer/roundtrip")
    sx.reach("producer")


def _spec_desc(code):
    for mask, val, text in CLASSES:
        if (code & mask) == val:
            return text
    return ""


def description():
    code = sx.fresh_int("code", 0, 0xFFFF)
    e = emcy().EmcyError(code, 0, b"\x00" * 5, 0)
    got = e.get_desc()
    exp = _spec_desc(code)
    sx.observe("desc", got)
    sx.prove(got == exp, "description is the CiA 301 error class", "C16/desc")
    s = str(e)
    sx.reach("desc")


def wait(filtered, pattern):
    """wait(): the waiter is handed the next matching entry, or None on time-out.  `pattern` is a
    tuple of deliveries, one per wake-up: 'm' matching frame, 'o' other frame, '-' nothing."""
    cons = emcy().EmcyConsumer()
    want = sx.fresh_int("want", 0, 0xFFFF)
    pending = list(pattern)
    delivered = []

    def hook(kind, obj):
        if kind != "condition" or not pending:
            return
        p = pending.pop(0)
        if p == "-":
            return
        f = _frame("f%d" % len(delivered))
        code, reg, data = _fields(f)
        if filtered:
            sx.assume((code == want) if p == "m" else (code != want))
        ts = sx.fresh_int("ts%d" % len(delivered), 0, 1 << 40)
        cons.on_emcy(0x81, f, ts)
        delivered.append((p, cons.log[-1]))
    sx.env().delivery_hook = hook
    res = cons.wait(want if filtered else None, timeout=1)
    # oracle: the first wake-up without a new entry is the time-out
    n_before = 0
    expect_entry = None
    for p in pattern:
        if p == "-":
            break
        n_before += 1
        if not filtered or p == "m":
            expect_entry = n_before - 1
            break
    sx.observe("res", None if res is None else [res.code, res.register])
    if expect_entry is None:
        sx.prove(res is None, "time-out returns None", "C16/wait/timeout")
        sx.reach("wait-timeout")
    else:
        sx.prove(res is not None and res is delivered[expect_entry][1], "waiter gets the next matching entry",
                 "C16/wait/entry")
        sx.reach("wait-hit")


def wait_threads(filtered, nframes, prior, preempt=0):
    """frames delivered by a second thread while the caller enters / sits in wait(): every schedule at lock
    granularity.  The caller gets a matching entry that arrived after it started waiting, or None."""
    cons = emcy().EmcyConsumer()
    if prior:
        cons.on_emcy(0x81, _frame("old"), 1)
    want = sx.fresh_int("want", 0, 0xFFFF)
    frames = [_frame("f%d" % i) for i in range(nframes)]
    sched = sx.scheduler(preempt=preempt)

    def feeder():
        for i, f in enumerate(frames):
            cons.on_emcy(0x81, f, 10 + i)
    sched.spawn(feeder, "feeder")
    n_before = len(cons.log)
    res = cons.wait(want if filtered else None, timeout=1)
    sched.join()
    sx.observe("res", None if res is None else res.code)
    mine = cons.log[n_before:] if not prior else cons.log[1:]
    if res is not None:
        sx.prove(any(res is e for e in cons.log[(1 if prior else 0):]), "wait returned an entry that did not arrive "
                 "during the wait", "C16/threads/stale-entry")
        if filtered:
            sx.prove(res.code == want, "wait returned a non-matching entry", "C16/threads/filter")
        sx.reach("threads-entry")
    else:
        sx.reach("threads-none")
    if not filtered:
        # a caller that was woken by the arrival of a frame is handed an entry (no filter: any entry qualifies)
        woken = any(w is True for w in sched.main.wait_results)
        sx.prove(res is not None or not woken, "a waiter woken by a frame was handed nothing", "C16/threads/woken-none")
    sx.prove(len(cons.log) == nframes + (1 if prior else 0), "log complete after the feeder finished",
             "C16/threads/log")


def wait_late_match():
    """wait(code, timeout=T): a non-matching frame arrives in time, the matching one only after T has passed (but
    before a wait that was re-armed at the non-matching frame would expire): the caller is handed nothing"""
    cons = emcy().EmcyConsumer()
    want = sx.fresh_int("want", 0, 0xFFFF)
    f1, f2 = _frame("f1"), _frame("f2")
    c1, _, _ = _fields(f1)
    c2, _, _ = _fields(f2)
    sx.assume(c1 != want)
    sx.assume(c2 == want)
    T = 1.5
    plan = [(0.6, f1), (1.2, f2)]       # arrival: +0.6 s and +1.8 s

    def hook(kind, obj):
        if kind != "condition" or not plan:
            return
        dt, f = plan.pop(0)
        sx.env().advance(dt)
        cons.on_emcy(0x81, f, sx.env().now)
    sx.env().delivery_hook = hook
    res = cons.wait(want, timeout=T)
    sx.observe("res", None if res is None else res.code)
    sx.prove(res is None, "an entry that arrived after the time-out was handed out", "C16/wait/late-match")
    sx.prove(len(cons.log) == 2, "both frames logged", "C16/wait/late-log")
    sx.reach("wait-late")


def two_waiters(filtered, preempt=0):
    """Two threads wait on the same consumer while a third delivers one frame (every schedule at lock
    granularity): every waiter that was parked in wait() when the frame arrived, and whose filter matches, gets
    that entry - a frame wakes all waiters, not just one."""
    cons = emcy().EmcyConsumer()
    want = sx.fresh_int("want", 0, 0xFFFF)
    f = _frame("f")
    code, reg, data = _fields(f)
    sched = sx.scheduler(preempt=preempt)
    res = {}
    parked = {}

    def waiter_b():
        res["b"] = cons.wait(None, timeout=1)

    def feeder():
        for t in sched.threads:
            parked[t.name] = (t.state == "waiting")
        cons.on_emcy(0x81, f, 10)
    sched.spawn(waiter_b, "b")
    sched.spawn(feeder, "feeder")
    res["a"] = cons.wait(want if filtered else None, timeout=1)
    sched.join()
    sx.observe("res", [None if res.get(k) is None else res[k].code for k in ("a", "b")])
    sx.observe("parked", [parked.get("main"), parked.get("b")])
    tag = "C16/two-waiters/%s" % ("filtered" if filtered else "any")
    sx.prove(len(cons.log) == 1, "one frame logged", tag + "/log")
    if parked.get("b"):
        sx.prove(res.get("b") is not None and res["b"] is cons.log[0], "a parked waiter missed the frame",
                 tag + "/second-waiter")
        sx.reach("two-waiters-parked")
    if parked.get("main"):
        if filtered:
            if bool(code == want):
                sx.prove(res["a"] is not None and res["a"] is cons.log[0], "a parked matching waiter missed the frame",
                         tag + "/first-waiter")
            else:
                sx.prove(res["a"] is None, "a non-matching frame was returned", tag + "/filter")
        else:
            sx.prove(res["a"] is not None and res["a"] is cons.log[0], "a parked waiter missed the frame",
                     tag + "/first-waiter")
    for k in ("a", "b"):
        if res.get(k) is not None:
            sx.prove(res[k] is cons.log[0], "wait returned something else than the frame's entry", tag + "/entry")
    sx.reach("two-waiters")


def two_consumers():
    """two consumers (two nodes) in one process: callbacks, log and active list of one are not touched by frames
    for the other"""
    c1, c2 = emcy().EmcyConsumer(), emcy().EmcyConsumer()
    calls1, calls2 = [], []
    c1.add_callback(lambda e: calls1.append(e))
    c2.add_callback(lambda e: calls2.append(e))
    f1, f2 = _frame("f1"), _frame("f2")
    c1.on_emcy(0x81, f1, 1)
    c2.on_emcy(0x82, f2, 2)
    c2.on_emcy(0x82, f1, 3)
    tag = "C16/two-consumers"
    sx.prove(len(calls1) == 1 and len(calls2) == 2, "each callback once per frame of its own consumer", tag + "/callbacks")
    sx.prove(len(c1.log) == 1 and len(c2.log) == 2 and c1.log is not c2.log and c1.active is not c2.active,
             "logs are per consumer", tag + "/logs")
    sx.reach("two-consumers")


def reset_keeps_listeners(kind):
    """consumer.reset() empties the log and the active list - nothing else: callbacks registered before still run,
    a caller already waiting still gets the next entry"""
    cons = emcy().EmcyConsumer()
    tag = "C16/reset-keeps/%s" % kind
    f = _frame("f")
    if kind == "callback":
        calls = []
        cons.add_callback(lambda e: calls.append(e))
        cons.on_emcy(0x81, _frame("old"), 1)
        cons.reset()
        cons.on_emcy(0x81, f, 2)
        sx.prove(len(calls) == 2, "callback registered before reset() no longer runs", tag + "/callback")
        sx.prove(len(cons.log) == 1, "log after reset()", tag + "/log")
    else:
        sched = sx.scheduler()
        parked = {}

        def feeder():
            parked["main"] = sched.main.state == "waiting"
            cons.reset()
            cons.on_emcy(0x81, f, 10)
        sched.spawn(feeder, "feeder")
        res = cons.wait(None, timeout=1)
        sched.join()
        if parked.get("main"):
            sx.prove(res is not None and len(cons.log) == 1 and res is cons.log[0],
                     "a caller waiting across reset() missed the next entry", tag + "/waiter")
            sx.reach("reset-keeps-parked")
    sx.reach("reset-keeps")


def repeated_producer():
    """the producer sends what it is asked to send, every time: the same error reported again after a reset (and
    twice in a row) reaches the consumer each time"""
    prod = emcy().EmcyProducer(0x81)
    cons = emcy().EmcyConsumer()
    wire = []

    class Net:
        def send_message(self, can_id, data, remote=False):
            wire.append((can_id, data))
            cons.on_emcy(can_id, data, len(wire))
    prod.network = Net()
    code = sx.fresh_int("code", 0x0100, 0xFFFF)
    reg = sx.fresh_byte("reg")
    data = sx.fresh_bytes("data", 5)
    prod.send(code, reg, data)
    prod.reset()
    prod.send(code, reg, data)
    prod.send(code, reg, data)
    prod.reset()
    prod.reset()
    tag = "C16/producer-history"
    sx.prove(len(wire) == 6 and len(cons.log) == 6, "every send()/reset() puts one frame on the bus", tag + "/count")
    if len(cons.log) == 6:
        sx.prove(sx.all_([_same_entry(cons.log[i], code, reg, sx.items(data), i + 1) for i in (0, 2, 3)]),
                 "repeated error decoded each time", tag + "/entries")
        sx.prove((cons.log[1].code == 0) & (cons.log[4].code == 0) & (cons.log[5].code == 0), "reset frames carry code 0",
                 tag + "/resets")
    sx.prove(len(cons.active) == 0, "active list empty after the final reset", tag + "/active")
    # every message stands for itself: shorter vendor data after longer data is zero-padded, a reset carries zeros
    short = sx.fresh_bytes("short", 1)
    code2 = sx.fresh_int("code2", 0x0100, 0xFFFF)
    prod.send(code2, reg, short)
    prod.send(code2, reg)
    prod.reset()
    if len(cons.log) == 9:
        sx.prove(_same_entry(cons.log[6], code2, reg, sx.items(short) + [0, 0, 0, 0], 7), "short data after long data is "
                 "zero-padded", tag + "/padding")
        sx.prove(_same_entry(cons.log[7], code2, reg, [0] * 5, 8), "no data after long data is all zeros", tag + "/padding")
        sx.prove(sx.all_([b == 0 for b in sx.items(cons.log[8].data)]) & (cons.log[8].register == 0),
                 "reset() carries zeros", tag + "/padding")
    else:
        sx.fail("frames missing", tag + "/count")
    sx.reach("producer-history")


def jobs(tier):
    out = []
    for filtered in (False, True):
        out.append(dict(func="two_waiters", params=dict(filtered=filtered), weight=50))
    out.append(dict(func="repeated_producer", params={}))
    out.append(dict(func="wait_late_match", params={}))
    out.append(dict(func="two_consumers", params={}))
    for kind in ("callback", "waiter"):
        out.append(dict(func="reset_keeps_listeners", params=dict(kind=kind)))
    for nlog in range(0, 3):
        for nact in range(0, nlog + 1):
            out.append(dict(func="step", params=dict(nlog=nlog, nact=nact)))
    for k in range(0, (3 if tier == "quick" else 7) + 1):
        out.append(dict(func="history", params=dict(k=k), weight=k))
    for nlog in ((100, 1000, 1024) if tier == "quick" else (100, 255, 256, 1000, 1001, 1024, 4096, 10000, 65536)):
        out.append(dict(func="long_step", params=dict(nlog=nlog)))
    for k1 in (0, 1, 2):
        for k2 in (1, 2):
            out.append(dict(func="history_reset", params=dict(k1=k1, k2=k2)))
    for n in range(0, 6):
        out.append(dict(func="producer", params=dict(n=n)))
    out.append(dict(func="description", params={}))
    for kind in ("nested", "reset"):
        out.append(dict(func="reentrant", params=dict(kind=kind)))
    for k in (1, 2, 3):
        out.append(dict(func="raising_callback", params=dict(k=k)))
    pats = [(), ("-",), ("m",), ("o", "m"), ("o", "-"), ("o", "o", "m"), ("m", "o")]
    for filtered in (False, True):
        for nf in (1, 2):
            for prior in (0, 1):
                out.append(dict(func="wait_threads", params=dict(filtered=filtered, nframes=nf, prior=prior)))
                # the same with one preemption placed at any source line of canopen code
                out.append(dict(func="wait_threads", params=dict(filtered=filtered, nframes=nf, prior=prior, preempt=1),
                                weight=200 * nf))
    if tier == "thorough":
        for filtered in (False, True):
            out.append(dict(func="two_waiters", params=dict(filtered=filtered, preempt=1), weight=12000))
    for filtered in (False, True):
        for p in pats:
            out.append(dict(func="wait", params=dict(filtered=filtered, pattern=list(p))))
    return out


META = dict(
    level_text="Bounded symbolic execution of EmcyConsumer.on_emcy/wait, EmcyProducer.send/reset and "
               "EmcyError.get_desc: an inductive step from an arbitrary log/active state (covers histories of any "
               "length), bounded histories from the empty consumer, producer->consumer round trip for every code, "
               "register and data length 0..5, the description table for all 65536 codes via one symbolic code, and "
               "wait() under a condition-variable model that delivers zero or one frame per wake-up.",
    level_note="Condition.wait is modelled (a wake-up delivers at most one frame, or nothing = time-out); real "
               "thread scheduling is outside. Step invariant: 'active' is a suffix of 'log'.",
    bounds=dict(quick="step: log length 0..2 with active suffix 0..len, frame fully symbolic; histories k<=3; producer "
                      "data length 0..5; all 65536 codes; wait patterns of up to 3 wake-ups",
                thorough="histories k<=7; long-history steps up to 65536 entries"),
    outside_bounds=["two frames delivered inside one wake-up of wait() (the implementation inspects only the last "
                    "log entry)", "OS-thread interleavings", "data longer than 5 bytes"],
    assumptions=["fake clock: a wake-up without delivery advances time by the time-out"],
    stubs=["struct", "threading.Condition", "time", "bytes"],
    required_reach=["step", "reset-cleared", "history", "history-reset", "long-step", "reentrant", "raising-callback", "two-waiters", "two-waiters-parked", "producer-history", "wait-late", "two-consumers", "reset-keeps", "reset-keeps-parked", "producer", "producer-reset", "desc", "wait-timeout",
                    "wait-hit", "threads-entry", "threads-none"],
    limits=dict(quick=dict(), thorough=dict(crosscheck_every=2, crosscheck_max=40)),
)
