"""C14 - Exporting a dictionary to EDS/DCF and importing it again loses nothing."""
import contextlib
import io
import os
import tempfile

from symx import api as sx
from harness import common as C
from refmodels import cia301 as S301

CLAIMED = True


def _export(od, doc_type, dest_kind):
    """returns the exported document text, produced through the requested destination kind"""
    export_od = sx.mod("canopen").export_od
    if dest_kind == "stream":
        buf = io.StringIO()
        export_od(od, buf, doc_type)
        return buf.getvalue()
    if dest_kind == "stdout":
        buf = io.StringIO()
        with contextlib.redirect_stdout(buf):
            export_od(od, None, doc_type)
        return buf.getvalue()
    # file names: "file" -> exported.<type>; "file:<stem>" -> <stem>.<type> (stems may contain dots, also the
    # other type's suffix); "filedir" -> a directory whose name contains a dot
    stem = dest_kind.split(":", 1)[1] if ":" in dest_kind else "exported"
    if stem == "other":
        stem = "copy." + ("eds" if doc_type == "dcf" else "dcf")
    d = tempfile.mkdtemp(prefix="c14.v2-" if dest_kind == "filedir" else "c14-")
    path = os.path.join(d, stem + "." + doc_type)
    try:
        export_od(od, path)              # doc type selected by the suffix
        with open(path) as f:
            return f.read()
    finally:
        try:
            os.remove(path)
        except OSError:
            pass
        os.rmdir(d)


def _import(text, doc_type):
    fp = io.StringIO(text)
    fp.name = "roundtrip." + doc_type
    return sx.mod("canopen").import_od(fp)


def _is(a, b):
    if a is None or b is None:
        return a is None and b is None
    return a == b


def _same_var(a, b, tag, dcf):
    sx.prove(type(b).__name__ == "ODVariable", "object kind", tag + "/kind")
    if type(b).__name__ != "ODVariable":
        return
    sx.prove(a.name == b.name, "name", tag + "/name")
    sx.prove(a.index == b.index and a.subindex == b.subindex, "address", tag + "/address")
    sx.prove(a.data_type == b.data_type, "data type", tag + "/data-type")
    sx.prove(a.access_type == b.access_type, "access type", tag + "/access")
    sx.prove(_is(a.pdo_mappable == True, b.pdo_mappable == True) if not sx.is_symbolic(a.pdo_mappable)
             and not sx.is_symbolic(b.pdo_mappable) else (sx.ite_bool(a.pdo_mappable, True, False) ==
                                                          sx.ite_bool(b.pdo_mappable, True, False)),
             "PDO mappability", tag + "/pdo")
    sx.prove(_is(a.default, b.default), "default value", tag + "/default")
    sx.prove(_is(a.min, b.min), "low limit", tag + "/low")
    sx.prove(_is(a.max, b.max), "high limit", tag + "/high")
    sx.prove(a.storage_location == b.storage_location, "storage location", tag + "/storage")
    sx.prove(a.factor == b.factor and a.unit == b.unit and a.description == b.description, "factor/unit/description",
             tag + "/scaling")
    if dcf:
        sx.prove(_is(a.value, b.value), "parameter value", tag + "/value")


def _same_od(od, od2, tag, dcf):
    sx.prove(sorted(od.indices.keys()) == sorted(od2.indices.keys()) if not sx.symbolic()
             else len(od) == len(od2), "same set of objects", tag + "/objects")
    for index in list(od.indices.keys()):
        a = od[index]
        if index not in od2:
            sx.fail("object 0x%04X lost" % index, tag + "/lost")
            continue
        b = od2[index]
        sx.prove(type(a).__name__ == type(b).__name__ and a.name == b.name, "object kind and name", tag + "/kind")
        if type(a).__name__ == "ODVariable":
            _same_var(a, b, tag, dcf)
        else:
            sx.prove(len(a) == len(b), "number of sub-indices", tag + "/sub-count")
            sx.prove(a.storage_location == b.storage_location, "record storage location", tag + "/storage")
            for sub in list(a.subindices.keys()):
                if sub not in b.subindices:
                    sx.fail("sub-index lost", tag + "/sub-lost")
                    continue
                _same_var(a[sub], b[sub], tag, dcf)


def int_types(doc_type, dest_kind, negative, codes):
    """variables of integer types with symbolic default, limits, parameter value and PDO flag"""
    od = C.odmod().ObjectDictionary()
    for k, code in enumerate(codes):
        name, w, signed = S301.INT_TYPES[code]
        lo, hi = S301.int_range(code)
        if negative == 1 and signed:
            dv = sx.fresh_int("d%d" % code, lo, -1)
        elif negative == 2:
            dv = sx.fresh_int("d%d" % code, lo, hi)
        else:
            dv = sx.fresh_int("d%d" % code, 0, hi)
        v = C.mkvar("Var %s = 100%% %s" % (name, "x"), 0x2000 + code, 0, code, ["rw", "ro", "wo", "const"][k % 4],
                    default=dv, pdo=False)
        v.pdo_mappable = sx.fresh_bool("pdo%d" % code)
        v.min = sx.fresh_int("lo%d" % code, lo, hi)
        v.max = sx.fresh_int("hi%d" % code, lo, hi)
        if doc_type == "dcf":
            v.value = sx.fresh_int("pv%d" % code, lo if negative and signed else 0, -1 if negative == 1 and signed else hi)
        if k % 3 == 0:
            v.storage_location = "PERSIST_COMM"
        od.add_object(v)
    text = _export(od, doc_type, dest_kind)
    sx.observe("len", len(text) > 0)
    od2 = _import(text, doc_type)
    _same_od(od, od2, "C14/int/%s" % doc_type, doc_type == "dcf")
    sx.reach("int-" + doc_type)
    sx.reach("dest-" + dest_kind)
    if negative:
        sx.reach("negative")


def reals(doc_type):
    """REAL32/REAL64 defaults and parameter values of a dictionary built in code (no original text): the exported text
    identifies the number - REAL64 to all its digits, REAL32 values that are float32 numbers exactly"""
    import math
    od = C.odmod().ObjectDictionary()
    vals64 = [math.pi / 1000, 1 / 3, 5e-324, 1.7976931348623157e308, 123456789.12345679, -2.5, 0.1]
    vals32 = [0.5, 1.5e10, 0.10000000149011612, -3.4028234663852886e38, 1.401298464324817e-45]
    mem = [C.mkvar("n", 0x2400, 0, 0x05, "ro", default=len(vals64))]
    for i, v in enumerate(vals64):
        var = C.mkvar("r64 %d" % i, 0x2400, i + 1, 0x11, "rw", default=v)
        var.value = vals64[(i + 1) % len(vals64)]
        mem.append(var)
    od.add_object(C.mkrecord("Reals", 0x2400, mem))
    for i, v in enumerate(vals32):
        var = C.mkvar("r32 %d" % i, 0x2500 + i, 0, 0x08, "rw", default=v)
        var.value = v
        od.add_object(var)
    od2 = _import(_export(od, doc_type, "stream"), doc_type)
    _same_od(od, od2, "C14/reals/%s" % doc_type, doc_type == "dcf")
    sx.reach("reals")


def export_twice(first_type, doc_type):
    """exporting is a pure function of the dictionary as it is *now*: a dictionary built in code is exported, then its
    defaults / parameter values are edited in code, then it is exported again - the second document describes the
    edited dictionary (nothing of the first export sticks to it)"""
    od = C.odmod().ObjectDictionary()
    cases = []
    for code in (0x03, 0x07, 0x04):
        lo, hi = S301.int_range(code)
        v = C.mkvar("Var %s" % S301.NAMES[code], 0x2000 + code, 0, code, "rw", default=sx.fresh_int("d%d" % code, lo, hi), pdo=False)
        v.value = sx.fresh_int("p%d" % code, lo, hi)
        od.add_object(v)
        cases.append((v, lo, hi))
    rec = C.mkrecord("Rec", 0x2100, [C.mkvar("n", 0x2100, 0, 0x05, "ro", default=1),
                                     C.mkvar("m", 0x2100, 1, 0x03, "rw", default=sx.fresh_int("dm", -(1 << 15), (1 << 15) - 1))])
    od.add_object(rec)
    cases.append((rec[1], -(1 << 15), (1 << 15) - 1))
    _export(od, first_type, "stream")
    for k, (v, lo, hi) in enumerate(cases):
        v.default = sx.fresh_int("e%d" % k, lo, hi)
        v.value = sx.fresh_int("q%d" % k, lo, hi)
    text = _export(od, doc_type, "stream")
    od2 = _import(text, doc_type)
    _same_od(od, od2, "C14/export-twice/%s-%s" % (first_type, doc_type), doc_type == "dcf")
    sx.reach("export-twice")


def structure(doc_type, nmembers, commissioning="both"):
    od = C.odmod().ObjectDictionary()
    od.comments = "exported by the harness\nsecond line = with equals" + "".join("\ncomment line %d" % i for i in range(3, 13))
    di = od.device_information
    di.vendor_name, di.product_name, di.order_code = "ACME = motors", "Drive 100%", "X-1"
    di.vendor_number = sx.fresh_int("vendor", 0, 0xFFFFFFFF)
    di.product_number = sx.fresh_int("product", 0, 0xFFFFFFFF)
    di.revision_number = sx.fresh_int("revision", 0, 0xFFFFFFFF)
    di.nr_of_RXPDO, di.nr_of_TXPDO = 4, 2
    di.simple_boot_up_master, di.simple_boot_up_slave, di.LSS_supported = False, True, True
    di.granularity = sx.fresh_int("granularity", 0, 64)
    di.dynamic_channels_supported, di.group_messaging = False, True
    di.allowed_baudrates.add(125000)
    di.allowed_baudrates.add(1000000)
    if doc_type == "dcf":
        if commissioning in ("both", "node"):
            od.node_id = sx.fresh_int("nid", 1, 127)
        if commissioning in ("both", "rate"):
            od.bitrate = 250000
        if str(commissioning).startswith("rate:"):
            od.bitrate = int(commissioning.split(":")[1])          # every standard rate, 1 Mbit/s included
    od.add_object(C.mkvar("Device type", 0x1000, 0, 0x07, "ro", default=sx.fresh_int("devtype", 0, 0xFFFFFFFF)))
    od.add_object(C.mkvar("Error register", 0x1001, 0, 0x05, "ro", default=0))
    members = [C.mkvar("Highest sub-index", 0x1018, 0, 0x05, "const", default=nmembers)]
    for i in range(1, nmembers + 1):
        m = C.mkvar("Identity part %d" % i, 0x1018, i, 0x07, "ro", default=sx.fresh_int("id%d" % i, 0, 0xFFFFFFFF))
        members.append(m)
    rec = C.mkrecord("Identity object", 0x1018, members)
    rec.storage_location = "ROM"
    od.add_object(rec)
    arr = C.mkarray("Array of I16", 0x6000, [C.mkvar("Number of entries", 0x6000, 0, 0x05, "ro", default=nmembers)] +
                    [C.mkvar("Elem %d" % i, 0x6000, i, 0x03, "rw", default=sx.fresh_int("e%d" % i, 0, 0x7FFF))
                     for i in range(1, nmembers + 1)])
    od.add_object(arr)
    scaled = C.mkvar("Scaled value", 0x2500, 0, 0x04, "rw", default=12)
    scaled.factor, scaled.unit, scaled.description = 0.25, "mm/s", "velocity, scaled"
    od.add_object(scaled)
    od.add_object(C.mkvar("Name", 0x2501, 0, 0x09, "const", default="canopen device"))
    od.add_object(C.mkvar("Blob", 0x2502, 0, 0x0F, "rw", default=bytes.fromhex("0102ff")))
    od.add_object(C.mkvar("Real", 0x2503, 0, 0x08, "rw", default=2.5))
    # every combination of factor / unit / description (each is optional on its own)
    for i in range(1, 8):
        v = C.mkvar("Scaling combo %d" % i, 0x2520 + i, 0, 0x04, "rw", default=i)
        if i & 1:
            v.factor = 0.25
        if i & 2:
            v.unit = "rpm"
        if i & 4:
            v.description = "described %d" % i
        od.add_object(v)
    # every access type keyword of CiA 306 (rwr / rww: read-write, mappable only as TPDO / RPDO data)
    for i, acc in enumerate(("rwr", "rww", "wo", "const", "ro", "rw")):
        od.add_object(C.mkvar("Access %s" % acc, 0x2510 + i, 0, 0x06, acc, default=None if acc == "wo" else i))
    text = _export(od, doc_type, "stream")
    od2 = _import(text, doc_type)
    tag = "C14/structure/%s" % doc_type
    _same_od(od, od2, tag, doc_type == "dcf")
    d2 = od2.device_information
    sx.prove((d2.vendor_number == di.vendor_number) & (d2.product_number == di.product_number)
             & (d2.revision_number == di.revision_number), "device identity numbers", tag + "/device-numbers")
    sx.prove(d2.vendor_name == di.vendor_name and d2.product_name == di.product_name and d2.order_code == di.order_code
             and d2.nr_of_RXPDO == 4 and d2.nr_of_TXPDO == 2 and d2.simple_boot_up_slave is True
             and d2.simple_boot_up_master is False and d2.LSS_supported is True, "device information",
             tag + "/device-info")
    sx.prove(d2.granularity is not None and type(d2.granularity) is not bool and d2.granularity == di.granularity,
             "granularity", tag + "/device-granularity")
    sx.prove(d2.dynamic_channels_supported is False and d2.group_messaging is True, "device flags",
             tag + "/device-flags")
    sx.prove(sorted(d2.allowed_baudrates) == [125000, 1000000], "allowed bit rates", tag + "/baudrates")
    sx.prove(od2.comments == od.comments, "comments", tag + "/comments")
    if doc_type == "dcf":
        sx.prove(_is(od2.node_id, od.node_id), "node id", tag + "/node-id")
        sx.prove(od2.bitrate == od.bitrate, "bit rate", tag + "/bitrate")
    sx.reach("structure-" + doc_type)


def imported_roundtrip():
    """a dictionary that came from a DCF (original texts kept, $NODEID-relative default, node id in the
    file) survives export + import without an explicit node id"""
    from refmodels.eds_writer import Doc, Entry, num
    x = sx.fresh_int("x", 0, 0x7FF)
    nid = sx.fresh_int("nid", 1, 127)
    d = Doc()
    d.section("FileInfo", ["FileName=a.dcf", "EDSVersion=4.0"])
    d.section("DeviceInfo", ["VendorName=V", "ProductName=P"])
    d.section("DeviceComissioning", ["NodeID=%s" % num(nid), "Baudrate=125"])
    d.record("RPDO 1", 0x1400, [Entry("n", 0x1400, 0, 0x05, "ro", default_text="2"),
                                Entry("COB-ID", 0x1400, 1, 0x07, "rw", default_text="$NODEID+%s" % num(x, "hex"))])
    d.variable(Entry("Flag", 0x2000, 0, 0x01, "rw", default_text="1"))
    fp = io.StringIO(d.text())
    fp.name = "in.dcf"
    od = sx.mod("canopen").import_od(fp)
    sx.prove(_is(od[0x1400][1].default, x + nid), "precondition: relative default resolved on the first import",
             "C14/imported/first-import")
    od2 = _import(_export(od, "dcf", "stream"), "dcf")
    tag = "C14/imported"
    sx.prove(_is(od2.node_id, nid), "node id survives", tag + "/node-id")
    sx.prove(od2.bitrate == 125000, "bit rate survives", tag + "/bitrate")
    sx.prove(_is(od2[0x1400][1].default, x + nid), "$NODEID-relative default survives export + import",
             tag + "/relative-default")
    sx.prove(od2[0x1400][1].relative is True, "relative flag survives", tag + "/relative-flag")
    sx.prove(_is(od2[0x2000].default, od[0x2000].default), "BOOLEAN default survives", tag + "/boolean")
    sx.reach("imported")


def booleans(doc_type):
    """BOOLEAN objects built in code with Python bool values"""
    od = C.odmod().ObjectDictionary()
    for i, (dv, pv) in enumerate(((True, False), (False, True), (1, 0))):
        v = C.mkvar("Flag %d" % i, 0x2100 + i, 0, 0x01, "rw", default=dv)
        v.value = pv
        od.add_object(v)
    od2 = _import(_export(od, doc_type, "stream"), doc_type)
    for i in range(3):
        a, b = od[0x2100 + i], od2[0x2100 + i]
        sx.prove(b.default is not None and bool(b.default) == bool(a.default), "BOOLEAN default survives",
                 "C14/boolean/%s/default" % doc_type)
        if doc_type == "dcf":
            sx.prove(b.value is not None and bool(b.value) == bool(a.value), "BOOLEAN parameter value survives",
                     "C14/boolean/dcf/value")
    sx.reach("booleans")


def destinations(doc_type):
    """the destination kind does not change the document"""
    od = C.odmod().ObjectDictionary()
    od.add_object(C.mkvar("Only var", 0x2000, 0, 0x06, "rw", default=sx.fresh_int("d", 0, 0xFFFF),
                          value=sx.fresh_int("pv", 0, 0xFFFF)))
    od.node_id = 5            # what distinguishes a DCF from an EDS: commissioning data and parameter values
    od.bitrate = 250000
    import re
    kinds = ("stream", "stdout", "file", "file:drive.v2", "file:other", "filedir", "file:.hidden")
    texts = [_export(od, doc_type, k) for k in kinds]

    def norm(t):
        # time stamps of FileInfo may differ between calls
        t = re.sub(r"(?m)^(CreationTime|CreationDate|ModificationTime|ModificationDate)\\s*=.*$", "", t)
        return re.sub("\u00a7\\d+\\|", "\u00a7|", t)      # number tokens: ignore the per-rendering token id
    sx.prove(norm(texts[0]) == norm(texts[1]) == norm(texts[2]), "stream, stdout and file give the same document",
             "C14/destinations/%s" % doc_type)
    again = _export(od, doc_type, "stream")
    sx.prove(norm(again) == norm(texts[0]), "exporting a second time gives the same document (the export leaves the "
             "dictionary as it was)", "C14/destinations/%s/second-export" % doc_type)
    for k, t in zip(kinds[3:], texts[3:]):
        sx.prove(norm(t) == norm(texts[0]), "the document does not depend on the rest of the file name",
                 "C14/destinations/%s/%s" % (doc_type, k))
    # file name without a known suffix -> EDS; explicit unknown doc type rejected
    try:
        sx.mod("canopen").export_od(od, io.StringIO(), "xml")
        sx.fail("unknown document type accepted", "C14/destinations/unknown-type")
    except ValueError:
        pass
    sx.reach("destinations")


def jobs(tier):
    out = []
    for a in ("eds", "dcf"):
        out.append(dict(func="reals", params=dict(doc_type=a)))
    for a in ("eds", "dcf"):
        for b in ("eds", "dcf"):
            out.append(dict(func="export_twice", params=dict(first_type=a, doc_type=b)))
    for doc in ("eds", "dcf"):
        codes = list(S301.INT_TYPES)
        for i, code in enumerate(codes):
            signed = S301.INT_TYPES[code][2]
            for neg in ((0, 1, 2) if signed else (0,)):
                dest = ("stream", "file", "stdout")[(i + neg) % 3]
                out.append(dict(func="int_types", params=dict(doc_type=doc, dest_kind=dest, negative=neg,
                                                             codes=[code]), weight=20))
        # two variables in one dictionary (a signed and an unsigned one)
        out.append(dict(func="int_types", params=dict(doc_type=doc, dest_kind="stream", negative=1,
                                                     codes=[0x03, 0x07]), weight=100))
        if tier == "thorough":
            for codes in ([0x02, 0x05, 0x10], [0x04, 0x15, 0x1B, 0x06], [0x12, 0x13, 0x14, 0x16, 0x18]):
                for neg in ((0, 2) if len(codes) < 5 else (0,)):
                    out.append(dict(func="int_types", params=dict(doc_type=doc, dest_kind="stream", negative=neg,
                                                                 codes=codes), weight=4 ** len(codes)))
        for n in ((1, 3, 17) if tier == "quick" else (1, 2, 3, 8, 17, 20, 50, 254)):      # 17: sub-index 0x10 and beyond
            out.append(dict(func="structure", params=dict(doc_type=doc, nmembers=n), weight=n))
        out.append(dict(func="destinations", params=dict(doc_type=doc)))
        out.append(dict(func="booleans", params=dict(doc_type=doc)))
    out.append(dict(func="imported_roundtrip", params={}))
    for comm in ("node", "rate", "none"):
        out.append(dict(func="structure", params=dict(doc_type="dcf", nmembers=1, commissioning=comm)))
    for rate in (10000, 20000, 50000, 125000, 500000, 800000, 1000000):
        out.append(dict(func="structure", params=dict(doc_type="dcf", nmembers=1, commissioning="rate:%d" % rate)))
    return out


META = dict(
    level_text="Bounded symbolic execution of export_od / export_eds / export_dcf / _revert_variable followed by "
               "import_od on dictionaries built in code (no original text): defaults, limits, parameter values and PDO "
               "flags of all 16 integer types are symbolic over the type's range (so negative defaults and limits at the "
               "range ends are covered), node id and identity numbers symbolic; the exported numbers travel as number "
               "tokens through the real RawConfigParser in both directions. Records and arrays of 1..n members, names "
               "with spaces, '%' and '=', strings, DOMAIN, REAL, factor/unit/description, device information, comments; "
               "both document types; all three destination kinds.",
    level_note="Structure enumerated by the harness dictionaries; bit rate concrete (multiples of 1000); REAL defaults "
               "and Factor concrete samples.",
    bounds=dict(quick="16 integer types x {EDS, DCF} x {stream, file, stdout} (+ negative defaults/values of signed "
                      "types); records/arrays of 1 and 3 members", thorough="records/arrays up to 50 members; dictionaries with 3-5 symbolic integer variables of different types together"),
    outside_bounds=["indexes outside the communication/manufacturer/profile areas", "symbolic REAL / factor values",
                    "relative ($NODEID) spelling preserved (only the resolved value is compared)"],
    assumptions=[],
    stubs=["int()/hex()/format()/str() with number tokens", "dict/set displays -> SymDict/SymSet", "logging"],
    required_reach=["export-twice", "reals", "int-eds", "int-dcf", "dest-stream", "dest-file", "dest-stdout", "negative", "structure-eds",
                    "structure-dcf", "destinations", "imported", "booleans"],
    limits=dict(quick=dict(), thorough=dict()),
)
