"""C12 - SDO block download delivers exactly the payload or fails visibly."""
from symx import api as sx
from harness import common as C
from harness.sdo_rig import ClientRig
from refmodels.block_server import BlockDownloadServer

CLAIMED = True


def _exc():
    return sx.mod("canopen.sdo.exceptions")


class LossyRig(ClientRig):
    """drops the k-th *segment* frame (frames between initiate and end) on its way to the server"""

    def __init__(self, server, lose=()):
        ClientRig.__init__(self, server)
        self.lose = set(lose)
        self.segno = 0
        self.dropped = []
        self.timeouts = 0

        def hook(kind, obj):
            # the client waits although the server has nothing to say: the server's block time-out fires
            if kind == "queue" and self.dropped and self.timeouts < 4:
                self.timeouts += 1
                for r in self.server.timeout():
                    self.client.on_response(self.client.tx_cobid, r, 0.0)
        sx.env().delivery_hook = hook

    def send_message(self, can_id, data, remote=False):
        self.sent.append((can_id, data))
        if self.server.state == "segments":
            k = self.segno
            self.segno += 1
            if k in self.lose:
                self.dropped.append(k)
                self.server.check = False     # after a fault only the commit decides
                return
        for r in self.server.on_request(data):
            self.client.on_response(self.client.tx_cobid, r, 0.0)


def _write_all(fp, payload, how):
    n = len(payload)
    if how == "buffered":
        fp.write(payload)
        return
    if how.startswith("chunks:"):
        # the documented way: a loop of fp.write(chunk) on the buffered stream
        chunk = int(how.split(":")[2])
        for pos in range(0, n, chunk):
            k = fp.write(payload[pos:pos + chunk])
            assert k == len(payload[pos:pos + chunk])
        return
    pos = 0
    while pos < n:
        k = fp.write(payload[pos:pos + 7])
        assert k is not None
        pos += k


def download(n, blks, crc, how, lose=(), final_loss=False, lenient=False):
    """blks: block sizes the server asks for in successive sub-blocks; lose: indices of segment frames
    dropped (counted over everything the client sends between initiate and end)"""
    E = _exc()
    # crc: 1 both sides, 0 the server does not support it, 2 the client does not ask for it (request_crc_support=False)
    srv = BlockDownloadServer(blks, crc=bool(crc))
    srv.strict_size = not lenient       # lenient: a server that does not compare the received length with the declared size
    srv.sc_capability = (crc == 3)      # 3: like 2, and the server's sc bit states its capability all the same
    rig = LossyRig(srv, lose)
    idx = sx.fresh_int("idx", 0, 0xFFFF)
    sub = sx.fresh_int("sub", 0, 0xFF)
    srv.expect_mux = (idx, sub)
    payload = sx.fresh_bytes("p", n)
    tag = "C12/download/%s" % ("loss" if lose else "clean")
    ok = True
    try:
        if how.startswith("chunks:"):
            buffering = int(how.split(":")[1])
        else:
            buffering = 1024 if how == "buffered" else 0
        fp = rig.client.open(idx, sub, "wb", buffering=buffering, size=n,
                             block_transfer=True, request_crc_support=(crc not in (2, 3)))
        try:
            _write_all(fp, payload, how)
        finally:
            fp.close()
    except (E.SdoCommunicationError, E.SdoAbortedError) as e:
        sx.observe("exc", C.exc_name(e))
        ok = False
    except Exception as e:
        # any other exception is still a visible failure; only acceptable where failing is allowed
        sx.observe("exc", C.exc_name(e))
        ok = False
        if not final_loss:
            sx.fail("block download raised %s" % C.exc_name(e), tag + "/raises")
    nsegs = max(1, -(-n // 7))
    if not lose:
        sx.prove(ok, "undisturbed block download failed", tag + "/failed")
    elif not final_loss:
        sx.prove(ok, "a single loss in a non-final sub-block was not repaired", tag + "/not-repaired")
    if ok:
        sx.prove(len(srv.commits) == 1, "returned normally without the server committing", tag + "/no-commit")
        if len(srv.commits) == 1:
            ci, cs, data = srv.commits[0]
            sx.observe("committed", sx.mkbytes(data))
            sx.prove((ci == idx) & (cs == sub), "committed at the addressed object", tag + "/address")
            sx.prove(len(data) == n, "committed length", tag + "/length")
            sx.prove(sx.eq_bytes(sx.mkbytes(data), payload), "committed bytes equal the payload", tag + "/bytes")
        sx.reach("ok-" + ("loss" if lose else "clean"))
    else:
        sx.reach("failed-visibly")


def ack_step(nblk):
    """_block_ack from a symbolic stream state and an arbitrary response frame"""
    E = _exc()
    mod = sx.mod("canopen.sdo.client")
    SdoClient, BDS = mod.SdoClient, mod.BlockDownloadStream
    sent = []

    class Net:
        def send_message(self, cid, data, remote=False):
            sent.append(data)
            if len(sent) == 1:      # answer the initiate so that the stream is built by its own constructor
                client.on_response(0x582, bytes([0xA0, 0x00, 0x20, 0x00, 127, 0, 0, 0]), 0.0)
    client = SdoClient(0x602, 0x582, C.odmod().ObjectDictionary())
    client.network = Net()
    s = BDS(client, 0x2000, 0, None, request_crc_support=False)
    del sent[:]
    if not all(hasattr(s, a) for a in ("_blksize", "_seqno", "size", "pos", "_done", "_crc", "_last_bytes_sent",
                                       "_retransmitting", "crc_supported", "_current_block")):
        for m in ("ack-complete", "ack-retransmit", "ack-rejected"):
            sx.not_applicable(m, "BlockDownloadStream keeps its sub-block state differently")
        return
    blksize = sx.fresh_int("blksize", 1, 127)
    s._blksize = blksize
    s._seqno = blksize
    s.size = None
    s.pos = 7 * nblk
    s._done = False
    s._crc = client.crc_cls()
    s._last_bytes_sent = 0
    s._retransmitting = False
    s.crc_supported = False
    segs = [sx.fresh_bytes("seg%d" % i, 7) for i in range(nblk)]
    s._current_block = list(segs)
    sx.assume(blksize == nblk)
    resp = sx.fresh_bytes("resp", 8)
    client.responses.put(resp)
    r = sx.items(resp)
    # keep a retransmission inside the new sub-block (no second acknowledge needed in this step)
    sx.assume((r[1] > nblk) | (r[2] > nblk - r[1]))
    tag = "C12/ack-step"
    try:
        s._block_ack()
    except (E.SdoCommunicationError, E.SdoAbortedError) as e:
        good = ((r[0] & 0xE0) == 0xA0) & ((r[0] & 3) == 2)
        sx.prove(sx.not_(good) | (r[0] == 0x80), "valid block acknowledge rejected", tag + "/rejected")
        sx.reach("ack-rejected")
        return
    sx.prove(((r[0] & 0xE0) == 0xA0) & ((r[0] & 3) == 2), "bad acknowledge accepted", tag + "/accepted")
    if bool(r[1] == blksize):
        sx.prove((s._blksize == r[2]) & (s._seqno == 0), "new block size adopted and numbering reset", tag + "/adopt")
        sx.prove(len(sent) == 0, "frames sent after a complete acknowledge", tag + "/spurious-frames")
        sx.reach("ack-complete")
    else:
        # retransmission: the segments after ackseq are resent, numbered from 1, in order
        a = sx.concretize(r[1])
        rest = segs[a:]
        sx.prove(len(sent) == len(rest), "retransmission resends the segments after ackseq", tag + "/resend-count")
        if len(sent) == len(rest):
            for j, (fr, seg) in enumerate(zip(sent, rest)):
                fi = sx.items(fr)
                sx.prove((fi[0] == j + 1) & sx.eq_bytes(sx.mkbytes(fi[1:8]), seg),
                         "resent segment numbered from 1 with the original data", tag + "/resend-frame")
        sx.prove(s.pos == 7 * nblk, "stream position restored after retransmission", tag + "/resend-pos")
        sx.prove((s._blksize == r[2]) & (s._seqno == len(rest)), "new block size adopted for the retransmission",
                 tag + "/resend-state")
        sx.reach("ack-retransmit")


def jobs(tier):
    out = []
    q = tier == "quick"
    lens = [1, 6, 7, 8, 13, 14, 15, 21, 22, 49, 50] if q else list(range(1, 101)) + [888, 889, 890, 896, 1000, 1778, 1779, 5000]
    blkss = [[127], [1], [2], [3], [7], [2, 3, 1, 5], [1, 127]]
    for n in lens:
        for blks in blkss:
            if n > 100 and blks[0] < 7 and blks != [2, 3, 1, 5]:
                continue
            for crc in (1, 0, 2, 3):
                for how in ("buffered", "raw"):
                    if how == "raw" and (crc != 1 or n > 100):
                        continue
                    if crc in (2, 3) and blks not in ([127], [2, 3, 1, 5]):
                        continue
                    out.append(dict(func="download", params=dict(n=n, blks=blks, crc=crc, how=how), weight=n))
    # single loss in a non-final sub-block: every position
    for n, blks in ((50, [3]), (50, [4, 2, 3]), (29, [2]), (64, [5, 3])) if q else \
            ((50, [3]), (50, [4, 2, 3]), (29, [2]), (64, [5, 3]), (100, [7]), (100, [3, 5, 2]), (889, [127])):
        nsegs = -(-n // 7)
        # segments of the final sub-block (with constant first block size b they are the last (nsegs-1)%b+1)
        pos = 0
        bl = list(blks)
        blocks = []
        while pos < nsegs:
            b = bl.pop(0) if len(bl) > 1 else bl[0]
            blocks.append((pos, min(b, nsegs - pos)))
            pos += b
        final_start = blocks[-1][0]
        for k in range(nsegs):
            fin = k >= final_start
            if n > 500 and k % 17:
                continue
            out.append(dict(func="download", params=dict(n=n, blks=blks, crc=1, how="buffered", lose=[k],
                                                         final_loss=fin), weight=n))
    # payload written the documented way: a loop of fp.write(chunk) on the buffered stream (buffer sizes that are
    # and are not multiples of 7, chunks smaller than / equal to / larger than the buffer), undisturbed and with one
    # lost segment in a non-final sub-block (the buffered writer hands views of its recycled buffer to raw.write)
    chunked = [(70, [4], 14, 7), (70, [4], 16, 16), (100, [127], 16, 5), (100, [3, 5], 10, 25), (64, [5], 21, 3),
               (3000, [127], 1024, 1024)]
    if not q:
        chunked += [(500, [10], 49, 7), (1000, [127], 14, 7), (3000, [127], 1022, 511), (3000, [20, 33, 7], 700, 70),
                    (5000, [127], 1024, 512), (200, [2], 8, 8), (200, [6], 1024, 64), (10000, [127], 8192, 4096)]
    # buffer sizes that are not a multiple of 7 make the raw stream stitch segments together from two writes; with
    # small sub-blocks such a stitched segment closes a sub-block (the acknowledge is read inside that write)
    for bsz in ((9, 10, 12, 16) if q else (8, 9, 10, 11, 12, 13, 15, 16, 17, 20)):
        for b0 in (2, 3):
            chunked.append((70, [b0], bsz, bsz))
    for n, blks, bsz, chunk in chunked:
        how = "chunks:%d:%d" % (bsz, chunk)
        for crc in (1, 0):
            out.append(dict(func="download", params=dict(n=n, blks=blks, crc=crc, how=how), weight=n))
        nsegs = -(-n // 7)
        b0 = blks[0]
        if len(blks) == 1 and nsegs > b0:
            nfinal = (nsegs - 1) % b0 + 1
            ks = [k for k in range(nsegs - nfinal)]
            if len(ks) > 12:
                ks = ks[:4] + ks[len(ks) // 2 - 2:len(ks) // 2 + 2] + ks[-4:]
            for k in ks:
                for crc in ((1, 0) if n <= 100 else (0,)):
                    out.append(dict(func="download", params=dict(n=n, blks=blks, crc=crc, how=how, lose=[k]), weight=n))
    # two losses: the second one inside the sub-block that carries the retransmission of the first (also the same
    # segment lost again, also the first segment of that sub-block); without CRC nothing but the client's own
    # bookkeeping protects the content.  Obligation: a normal return has committed exactly the payload.
    for n, blks, pairs in ((70, [4], ([1, 5], [1, 4], [2, 6], [1, 6], [3, 4], [3, 7])), (150, [7], ([2, 9], [5, 8], [6, 7]))):
        for lose in pairs:
            for crc in (0, 1, 2):
                out.append(dict(func="download", params=dict(n=n, blks=blks, crc=crc, how="buffered", lose=lose,
                                                             final_loss=True), weight=n))
    # ... and with a retransmit-requesting acknowledge that also announces a *smaller* block size, so that the resent
    # segments spread over more than one sub-block, the second loss hitting the sub-block that begins with their tail
    for blks in ([7, 3, 3, 7], [7, 2, 5, 7], [6, 4, 2, 7]):
        for lose in ([2, 10], [2, 11], [2, 12], [1, 10], [3, 11], [2, 9], [4, 9]):
            out.append(dict(func="download", params=dict(n=150, blks=blks, crc=0, how="buffered", lose=lose, final_loss=True,
                                                         lenient=True), weight=150))
            for crc in (0, 2):        # (with a CRC the comparison over 150 symbolic bytes does not finish; without one
                                      # nothing but the client's bookkeeping protects the content anyway)
                out.append(dict(func="download", params=dict(n=150, blks=blks, crc=crc, how="buffered", lose=lose,
                                                             final_loss=True), weight=150))
    if not q:
        for n in (1, 7, 8, 14, 15, 22, 29, 35):
            for crc in (1, 0):
                out.append(dict(func="download", params=dict(n=n, blks=["sym"], crc=crc, how="buffered"), weight=4 ** (n // 7 + 1)))
        for n in (15, 22, 29):
            for k in range(-(-n // 7) - 1):
                out.append(dict(func="download", params=dict(n=n, blks=["sym"], crc=1, how="buffered", lose=[k],
                                                             final_loss=True), weight=4 ** (n // 7 + 1)))
        for lose in ([0, 1], [1, 3], [2, 6], [0, 7]):
            out.append(dict(func="download", params=dict(n=70, blks=[4], crc=1, how="buffered", lose=lose,
                                                         final_loss=True), weight=70))
    for nblk in (1, 2, 5):
        out.append(dict(func="ack_step", params=dict(nblk=nblk)))
    return out


META = dict(
    level_text="Bounded symbolic execution of BlockDownloadStream (init, write, send, _block_ack, _retransmit, close), "
               "CrcXmodem and SdoClient.open(block_transfer=True) against a reference CiA 301 block-download server that "
               "checks sequence numbers, the last-segment flag, the unused-byte count, the declared size and the CRC and "
               "commits only if everything matches: payload bytes and the multiplexer are symbolic, lengths and block-size "
               "sequences concrete per job, every single lost segment position enumerated per scenario.",
    level_note="The CRC comparison uses the engine's model of binascii.crc_hqx on both sides (the C function is trusted); "
               "what is decided is that the client feeds exactly the payload, in order. Loss patterns other than a single "
               "loss in a non-final sub-block only carry the obligation 'normal return => committed == payload'.",
    bounds=dict(quick="payload lengths 1,6,7,8,13,14,15,21,22,49,50; block-size sequences [127],[1],[2],[3],[7],[2,3,1,5],"
                      "[1,127]; CRC on/off; buffered and raw writing; every single lost segment for 4 (length, block "
                      "sizes) scenarios; payload written in pieces through the buffered stream (6 buffer/piece combinations incl. "
                      "the documented 1024/1024 loop), undisturbed and with one lost segment",
                thorough="every length 1..100, 888..890, 896, 1000, 1778, 1779, 5000; 7 loss scenarios incl. 889 bytes / "
                         "block size 127; 4 double-loss patterns; block size chosen symbolically per sub-block among "
                         "{1,2,3,127} for lengths up to 35 bytes (with and without a single loss); 14 chunked-write layouts up to 10000 bytes"),
    outside_bounds=["size not declared (block download without size indication)", "arbitrary block-size sequences beyond the listed ones",
                    "payloads beyond 1000 bytes", "loss of acknowledgements (server->client frames)"],
    assumptions=["a lost final segment of a sub-block makes the server wait (no acknowledge) and the client time out"],
    stubs=["struct", "binascii.crc_hqx (z3 model)", "queue", "time", "io model (BufferedWriter/BufferedReader after CPython bufferedio.c, views into the recycled buffer)", "logging"],
    required_reach=["ok-clean", "ok-loss", "failed-visibly", "ack-complete", "ack-retransmit", "ack-rejected"],
    limits=dict(quick=dict(max_decisions=50000), thorough=dict(max_decisions=200000)),
    validate_every=dict(quick=1, thorough=1),
    max_validate=dict(quick=3, thorough=3),
)
