"""Rigs shared by the SDO harnesses: a real SdoClient wired to a reference server, and a real
LocalNode/SdoServer wired to a reference client."""
from symx import api as sx
from harness import common as C


class ClientRig:
    """real canopen SdoClient <-> reference server (inline delivery by default)"""

    def __init__(self, server, od=None, node_id=2):
        SdoClient = sx.mod("canopen.sdo.client").SdoClient
        if od is None:
            od = C.odmod().ObjectDictionary()
        self.server = server
        self.client = SdoClient(0x600 + node_id, 0x580 + node_id, od)
        self.client.network = self
        self.sent = []
        self.tamper = None       # callable(step, request, responses) -> responses (fault injection)
        self.step = 0
        self.deferred = None     # None: inline; list: responses parked until the client waits
        self.lose_requests = set()   # ordinal numbers of request frames that never reach the server (lossy bus)
        self.nreq = 0

    def send_message(self, can_id, data, remote=False):
        self.sent.append((can_id, data))
        sx.prove(can_id == self.client.rx_cobid, "request on the server's COB-ID", "C01/frame/cob-id")
        self.nreq += 1
        if self.nreq - 1 in self.lose_requests:
            return
        resps = self.server.on_request(data)
        if self.tamper is not None:
            resps = self.tamper(self.step, data, resps)
        self.step += 1
        for r in resps:
            if self.deferred is not None:
                self.deferred.append(r)
            else:
                self._rx(r)

    def _rx(self, r):
        """hand a response to the client the way a bus interface does: in its receive buffer, which it reuses
        for the next frame once the callback has returned"""
        buf = sx.new_bytearray(sx.items(r))
        self.client.on_response(self.client.tx_cobid, buf, 0.0)
        self.nrx = getattr(self, "nrx", 0) + 1
        junk = sx.items(sx.fresh_bytes("rxbuf%d" % self.nrx, len(buf)))
        for i in range(len(buf)):
            buf[i] = junk[i]

    def enable_deferred(self):
        """responses are delivered only when the client starts waiting on its queue (models delivery
        by another thread at message granularity)"""
        self.deferred = []

        def hook(kind, obj):
            if kind == "queue":
                while self.deferred:
                    self._rx(self.deferred.pop(0))
        sx.env().delivery_hook = hook


class ServerRig:
    """real LocalNode (SdoServer) on a real Network whose send_message is replaced; requests are fed
    through Network.notify like a bus interface would"""

    def __init__(self, od, node_id=2):
        Network = sx.mod("canopen.network").Network
        LocalNode = sx.mod("canopen.node.local").LocalNode
        self.net = Network()
        self.out = []
        self.net.send_message = self._send
        self.node = LocalNode(node_id, od)
        self.net.add_node(self.node)
        self.rx = 0x600 + node_id
        self.tx = 0x580 + node_id
        self.escaped = []

    def _send(self, can_id, data, remote=False):
        self.out.append((can_id, data, remote))

    def deliver(self, frame):
        """feed one request frame; returns the response frames emitted on the server's tx COB-ID"""
        n0 = len(self.out)
        self.net.notify(self.rx, frame, 0.0)
        new = self.out[n0:]
        for cid, data, remote in new:
            sx.prove(cid == self.tx and not remote, "response on the server's tx COB-ID", "C02/resp/cob-id")
        return [d for cid, d, r in new]

    def store_snapshot(self):
        """data_store as {(index, sub): bytes} with concrete keys"""
        snap = {}
        for i in self.node.data_store.keys():
            for s in self.node.data_store[i].keys():
                # a copy: the snapshot must not change when the node's own object does
                snap[(sx.concretize(i), sx.concretize(s))] = sx.mkbytes(list(sx.items(self.node.data_store[i][s])))
        return snap
