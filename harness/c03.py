"""C03 - Typed values survive the client -> bus -> server -> client round trip."""
from symx import api as sx
from harness import common as C
from refmodels import cia301 as S301

CLAIMED = True

NID, NID2 = 3, 7
VIS, OCT, UNI, DOM = 0x09, 0x0A, 0x0B, 0x0F


def _od():
    od = C.typed_od(with_pdo=False)
    od.add_object(C.mkvar("Visible", 0x2100, 0, VIS))
    od.add_object(C.mkvar("Octets", 0x2101, 0, OCT))
    od.add_object(C.mkvar("Unicode", 0x2102, 0, UNI))
    od.add_object(C.mkvar("Domain", 0x2103, 0, DOM))
    od.add_object(C.mkvar("Serial", 0x2104, 0, VIS, "ro", default="SN-0001"))
    od.add_object(C.mkrecord("Record", 0x2200, [C.mkvar("n", 0x2200, 0, C.U8, "ro", default=2),
                                                C.mkvar("Member", 0x2200, 1, 0x03),
                                                C.mkvar("Other", 0x2200, 2, 0x07)]))
    # a second record whose members carry the same names as those of the first one (two axes of one drive), and a
    # top-level entry named like a member
    od.add_object(C.mkrecord("Record B", 0x2201, [C.mkvar("n", 0x2201, 0, C.U8, "ro", default=2),
                                                  C.mkvar("Member", 0x2201, 1, 0x03),
                                                  C.mkvar("Other", 0x2201, 2, 0x07)]))
    od.add_object(C.mkvar("Other", 0x2202, 0, 0x07))
    # a top-level entry whose own name contains a full stop and begins like a record's name
    od.add_object(C.mkvar("Record B.Extra", 0x2203, 0, C.U16))
    # text / byte-string entries that come with a default of their own
    od.add_object(C.mkvar("Device label", 0x2105, 0, VIS, "rw", default="FACTORY NAME"))
    od.add_object(C.mkvar("Key", 0x2106, 0, OCT, "rw", default=b"\x01\x02\x03"))
    od.add_object(C.mkarray("Array", 0x2300, [C.mkvar("n", 0x2300, 0, C.U8, "ro", default=2),
                                              C.mkvar("Elem", 0x2300, 1, 0x04)]))
    return od


class World:
    """network A: remote nodes (clients); network B: local node (server); joined by a loopback"""

    def __init__(self, discipline):
        netmod = sx.mod("canopen.network")
        self.discipline = discipline
        self.na, self.nb = netmod.Network(), netmod.Network()
        self.parked = []
        self.log = []
        self.noise = 0
        self.na.send_message = lambda cid, data, remote=False: self._send("a", cid, data)
        self.nb.send_message = lambda cid, data, remote=False: self._send("b", cid, data)
        self.remote = sx.mod("canopen.node.remote").RemoteNode(NID, _od())
        self.remote2 = sx.mod("canopen.node.remote").RemoteNode(NID2, _od())
        self.local = sx.mod("canopen.node.local").LocalNode(NID, _od())
        self.na.add_node(self.remote)
        self.na.add_node(self.remote2)
        self.nb.add_node(self.local)
        self.to_node2 = []
        self.latency = self.remaining = 0.2        # per hop: a request/response pair takes 0.4 s
        self.nscribble = 0
        self.node2_noise = True
        if discipline != "inline":
            sx.env().delivery_hook = self._hook

    def _send(self, origin, cid, data):
        self.log.append((origin, cid, data))
        if self.discipline == "inline":
            self._deliver(origin, cid, data)
        else:
            self.parked.append((origin, cid, data))

    def _deliver(self, origin, cid, data):
        if self.discipline == "interleaved" and self.noise < 2:
            self._noise()
        # the bus interface hands its receive buffer to notify() and reuses it for the next frame once the
        # call has returned (python-can gives each Message its own bytearray; custom back ends feeding
        # Network.notify need not): consumers that keep the frame must have copied it
        frame = sx.new_bytearray(sx.items(data))
        (self.nb if origin == "a" else self.na).notify(cid, frame, 1.0)
        self.nscribble += 1
        junk = sx.items(sx.fresh_bytes("rxbuf%d" % self.nscribble, len(frame)))
        for i in range(len(frame)):
            frame[i] = junk[i]

    def _noise(self):
        """unrelated bus traffic in front of a delivery: a frame with an arbitrary id that is none of this
        channel's ids, and an SDO response addressed to the second remote node"""
        self.noise += 1
        k = self.noise
        # ids that belong to no node's predefined connection set: 0x101..0x17F, any 29-bit id >= 0x800, or an
        # extended id whose low 11 bits equal one of this channel's ids (arrives through the bus listener)
        kind = sx.choice(3, "noise_kind%d" % k)
        junk = sx.fresh_bytes("noise%d" % k, 8)
        if kind == 2:
            hi = sx.fresh_int("noise_hi%d" % k, 1, 0x3FFFF)
            low = (0x600 + NID, 0x580 + NID)[sx.choice(2, "noise_low%d" % k)]
            fid = (hi << 11) | low
            can = sx.mod("canopen.network").can
            for net in (self.na, self.nb):
                msg = can.Message(arbitration_id=fid, data=junk, is_extended_id=True, timestamp=0.5)
                net.listeners[0].on_message_received(msg)
        else:
            if kind == 1:
                fid = sx.fresh_int("noise_id%d" % k, 0x800, 0x1FFFFFFF)
            else:
                fid = sx.fresh_int("noise_id%d" % k, 0x101, 0x17F)
            self.na.notify(fid, junk, 0.5)
            self.nb.notify(fid, junk, 0.5)
        if self.node2_noise:
            other = sx.fresh_bytes("node2_resp%d" % k, 8)
            self.to_node2.append(other)
            self.na.notify(0x580 + NID2, other, 0.6)

    def _hook(self, kind, obj):
        # the waiting client lets "the other thread" run: deliver everything that is parked, in order
        if self.discipline == "slow":
            # every frame takes self.latency seconds to arrive; a waiter that gives up earlier gets nothing yet
            t = sx.env().wait_timeout
            budget = t
            while self.parked:
                if budget is not None and self.remaining > budget:
                    self.remaining -= budget
                    return
                if budget is not None:
                    budget -= self.remaining
                sx.env().advance(self.remaining)
                self.remaining = self.latency
                self._deliver(*self.parked.pop(0))
            return
        guard = 0
        while self.parked and guard < 50:
            guard += 1
            self._deliver(*self.parked.pop(0))


def _access(node, how, index, name):
    if how == "index":
        return node.sdo[index]
    return node.sdo[name]


def numeric(code, discipline, how):
    w = World(discipline)
    name = "%s value" % S301.NAMES[code]
    index = C.TYPE_INDEX[code]
    lo, hi = S301.int_range(code)
    v = sx.fresh_int("v", lo, hi)
    tag = "C03/%s/%s" % (S301.NAMES[code], discipline)
    _access(w.remote, how, index, name).raw = v
    stored = w.local.data_store[index][0]
    sx.observe("stored", stored)
    n = S301.width(code) // 8
    it = sx.items(stored)
    sx.prove(len(it) == n, "stored length is width/8", tag + "/stored-length")
    sx.prove(sx.all_([it[i] == sx.byte_of(v, i) for i in range(min(n, len(it)))]),
             "local node holds the CiA 301 little-endian encoding", tag + "/stored-bytes")
    sx.prove(_access(w.remote, how, index, name).raw == v, "remote read-back", tag + "/remote-read")
    sx.prove(_access(w.local, how, index, name).raw == v, "local read-back", tag + "/local-read")
    _channels(w, tag)
    sx.reach("numeric-" + discipline)
    sx.reach("access-" + how)


def _channels(w, tag):
    # the second node's client got exactly the frames addressed to it, this node's queue is drained
    q2 = []
    while not w.remote2.sdo.responses.empty():
        q2.append(w.remote2.sdo.responses.get_nowait())
    sx.prove(len(q2) == len(w.to_node2) and all(sx.eq_bytes(a, b) is not False for a, b in zip(q2, w.to_node2)),
             "second node's SDO client saw frames of another channel", tag + "/cross-talk")
    for a, b in zip(q2, w.to_node2):
        sx.prove(sx.eq_bytes(a, b), "second node's frames", tag + "/cross-talk-bytes")
    sx.prove(len(w.remote2.emcy.log) == 0 and w.remote2.nmt._state == 0, "second node disturbed", tag + "/node2-state")


def boolean(discipline):
    w = World(discipline)
    b = sx.fresh_bool("b")
    index = C.TYPE_INDEX[S301.BOOLEAN]
    w.remote.sdo[index].raw = b
    it = sx.items(w.local.data_store[index][0])
    sx.prove(len(it) == 1 and (it[0] == sx.ite(b, 1, 0)) is not False, "BOOLEAN stored as one byte", "C03/BOOLEAN/stored")
    sx.prove(it[0] == sx.ite(b, 1, 0), "BOOLEAN stored as 0/1", "C03/BOOLEAN/stored-bytes")
    sx.prove(w.remote.sdo[index].raw == b, "BOOLEAN remote read-back", "C03/BOOLEAN/remote-read")
    sx.prove(w.local.sdo["BOOLEAN value"].raw == b, "BOOLEAN local read-back", "C03/BOOLEAN/local-read")
    sx.reach("boolean")


def real(code, discipline):
    w = World(discipline)
    name = S301.NAMES[code]
    index = C.TYPE_INDEX[code]
    x = sx.fresh_float("x")
    sx.assume(sx.not_(sx.fisnan(x)))
    if code == S301.REAL32:
        sx.assume(sx.f32_exact(x))
        bits, n = sx.f32_bits(x), 4
    else:
        bits, n = sx.f64_bits(x), 8
    w.remote.sdo[index].raw = x
    it = sx.items(w.local.data_store[index][0])
    tag = "C03/%s/%s" % (name, discipline)
    sx.prove(len(it) == n, "stored length", tag + "/stored-length")
    sx.prove(sx.all_([it[i] == sx.byte_of(bits, i) for i in range(min(n, len(it)))]), "stored IEEE 754 image",
             tag + "/stored-bytes")
    back = w.remote.sdo[index].raw
    sx.prove(sx.f64_bits(back) == sx.f64_bits(x), "REAL remote read-back (bit exact)", tag + "/remote-read")
    back2 = w.local.sdo[index].raw
    sx.prove(sx.f64_bits(back2) == sx.f64_bits(x), "REAL local read-back (bit exact)", tag + "/local-read")
    sx.reach("real")


def _cp(ch):
    from symx import symstr
    return ch._cps[0] if isinstance(ch, symstr.SymStr) else ord(ch)


def text(code, n, discipline):
    w = World(discipline)
    index = 0x2100 if code == VIS else 0x2102
    name = "Visible" if code == VIS else "Unicode"
    if code == VIS:
        s = sx.fresh_str("s", n, 0, 127)
    else:
        s = sx.fresh_str("s", n, 0, 0xFFFF)
        for ch in s:
            sx.assume(sx.not_((_cp(ch) >= 0xD800) & (_cp(ch) <= 0xDFFF)))
    if n:
        sx.assume(_cp(s[n - 1]) != 0)
    tag = "C03/%s/%s" % (name, discipline)
    w.remote.sdo[name].raw = s
    it = sx.items(w.local.data_store[index][0])
    if code == VIS:
        sx.prove(len(it) == n and sx.all_([it[i] == _cp(s[i]) for i in range(min(n, len(it)))]) is not False,
                 "stored ASCII length", tag + "/stored-length")
        sx.prove(sx.all_([it[i] == _cp(s[i]) for i in range(min(n, len(it)))]), "stored ASCII bytes", tag + "/stored-bytes")
    else:
        sx.prove(len(it) == 2 * n, "stored UTF-16 length", tag + "/stored-length")
        sx.prove(sx.all_([(it[2 * i] == (_cp(s[i]) & 0xFF)) & (it[2 * i + 1] == (_cp(s[i]) >> 8))
                          for i in range(min(n, len(it) // 2))]), "stored UTF-16-LE bytes", tag + "/stored-bytes")
    sx.prove(w.remote.sdo[index].raw == s, "text remote read-back", tag + "/remote-read")
    sx.prove(w.local.sdo[index].raw == s, "text local read-back", tag + "/local-read")
    _channels(w, tag)
    sx.reach("text")


def blob(code, n, discipline):
    w = World(discipline)
    index = 0x2101 if code == OCT else 0x2103
    data = sx.fresh_bytes("d", n)
    tag = "C03/%s/%s" % ("OCTET_STRING" if code == OCT else "DOMAIN", discipline)
    n0 = len(w.log)
    w.remote.sdo[index].raw = data
    sx.prove(sx.eq_bytes(w.local.data_store[index][0], data), "local node holds exactly the bytes", tag + "/stored-bytes")
    if code == DOM:
        first = sx.items(w.log[n0][2])
        sx.prove((first[0] & 0xE2) == 0x20, "DOMAIN uses segmented transfer", tag + "/segmented")
        sx.reach("domain-segmented")
    got = w.remote.sdo[index].raw
    sx.prove(sx.eq_bytes(got, data), "remote read-back", tag + "/remote-read")
    sx.prove(sx.eq_bytes(w.local.sdo[index].raw, data), "local read-back", tag + "/local-read")
    _channels(w, tag)
    sx.reach("blob")


def record_member(discipline):
    w = World(discipline)
    v = sx.fresh_int("v", -(1 << 15), (1 << 15) - 1)
    v2 = sx.fresh_int("v2", -(1 << 31), (1 << 31) - 1)
    v3 = sx.fresh_int("v3", 0, 0xFFFFFFFF)
    v4 = sx.fresh_int("v4", -(1 << 31), (1 << 31) - 1)
    w.remote.sdo["Record.Member"].raw = v
    w.remote.sdo["Array"][2].raw = v2            # dynamically created array member
    w.remote.sdo["Record.Other"].raw = v3        # siblings written afterwards must not disturb the first ones
    w.remote.sdo["Array"][1].raw = v4
    it = sx.items(w.local.data_store[0x2200][1])
    sx.prove(len(it) == 2 and sx.all_([it[i] == sx.byte_of(v, i) for i in range(min(2, len(it)))]) is not False,
             "record member stored", "C03/record/stored")
    sx.prove(sx.all_([it[i] == sx.byte_of(v, i) for i in range(min(2, len(it)))]), "record member bytes",
             "C03/record/stored-bytes")
    sx.prove(w.remote.sdo[0x2200][1].raw == v, "record member by index/sub", "C03/record/by-index")
    sx.prove(w.remote.sdo["Record"]["Member"].raw == v, "record member by names", "C03/record/by-name")
    sx.prove(w.local.sdo["Record.Member"].raw == v, "record member on the local side", "C03/record/local")
    sx.prove(w.remote.sdo[0x2300][2].raw == v2, "array member round trip", "C03/array/remote")
    sx.prove(w.local.sdo[0x2300][2].raw == v2, "array member on the local side", "C03/array/local")
    sx.prove(w.remote.sdo[0x2200][2].raw == v3, "sibling record member", "C03/record/sibling")
    sx.prove(w.local.sdo["Array"][1].raw == v4, "sibling array member", "C03/array/sibling")
    sx.reach("record")


def same_names(discipline):
    """members of two records that share their short names, and a top-level entry named like a member, are
    different objects: each dotted / plain name reaches its own entry, through one and the same accessor object"""
    w = World(discipline)
    sdo = w.remote.sdo
    va = sx.fresh_int("va", -(1 << 15), (1 << 15) - 1)
    vb = sx.fresh_int("vb", -(1 << 15), (1 << 15) - 1)
    oa = sx.fresh_int("oa", 0, 0xFFFFFFFF)
    ob = sx.fresh_int("ob", 0, 0xFFFFFFFF)
    ot = sx.fresh_int("ot", 0, 0xFFFFFFFF)
    sdo["Record.Member"].raw = va
    sdo["Record B.Member"].raw = vb
    sdo["Record.Other"].raw = oa
    sdo["Record B.Other"].raw = ob
    sdo["Other"].raw = ot
    tag = "C03/same-names/"
    for key, exp, where in (("Record.Member", va, (0x2200, 1)), ("Record B.Member", vb, (0x2201, 1)),
                            ("Record.Other", oa, (0x2200, 2)), ("Record B.Other", ob, (0x2201, 2)),
                            ("Other", ot, (0x2202, 0))):
        sx.prove(sdo[key].raw == exp, "read back by name %r" % key, tag + "remote")
        sx.prove(w.local.sdo[key].raw == exp, "local value of %r" % key, tag + "local")
        st = w.local.data_store[where[0]][where[1]]
        n = len(sx.items(st))
        sx.prove(sx.eq_bytes(st, sx.mkbytes([sx.byte_of(exp, i) for i in range(n)])), "stored bytes of %r" % key,
                 tag + "stored")
    sx.prove(sdo[0x2201][1].raw == vb, "by index and sub-index", tag + "by-index")
    ex = sx.fresh_int("ex", 0, 0xFFFF)
    try:
        sdo["Record B.Extra"].raw = ex
        sx.prove((sdo["Record B.Extra"].raw == ex) & (w.local.sdo[0x2203].raw == ex), "entry whose name contains a full stop",
                 tag + "dotted-name")
    except Exception as e:
        sx.observe("exc", C.exc_name(e))
        sx.fail("an entry whose own name contains a full stop cannot be reached by that name", tag + "dotted-name")
    sx.reach("same-names")


def empty_over_default(discipline):
    """the empty value is a value: written to a text / byte-string entry that has a default of its own, it reads back
    empty from both sides (the default does not come back)"""
    w = World(discipline)
    for key, idx, empty in (("Device label", 0x2105, ""), ("Key", 0x2106, b"")):
        tag = "C03/empty-over-default/%s" % key.replace(" ", "-")
        w.remote.sdo[key].raw = empty
        st = w.local.data_store[idx][0]
        sx.prove(len(sx.items(st)) == 0, "stored bytes are empty", tag + "/stored")
        got_r = w.remote.sdo[key].raw
        got_l = w.local.sdo[key].raw
        sx.prove(len(got_r) == 0, "remote read-back of the empty value", tag + "/remote")
        sx.prove(len(got_l) == 0, "local read-back of the empty value", tag + "/local")
    sx.reach("empty-over-default")


def stale_responses(k):
    """k stale frames sit in the client's queue (answers of timed-out requests that arrived late): the next
    typed read and write must not be affected by any of them"""
    w = World("inline")
    idx = C.TYPE_INDEX[0x07]
    a = sx.fresh_int("a", 0, 0xFFFFFFFF)
    w.remote.sdo[idx].raw = a
    for i in range(k):
        w.na.notify(0x580 + NID, sx.fresh_bytes("stale%d" % i, 8), 0.1)
    sx.prove(w.remote.sdo[idx].raw == a, "stale responses changed a typed read", "C03/stale/read")
    for i in range(k):
        w.na.notify(0x580 + NID, sx.fresh_bytes("stale_b%d" % i, 8), 0.1)
    b = sx.fresh_int("b", 0, 0xFFFFFFFF)
    w.remote.sdo[idx].raw = b
    sx.prove(w.local.sdo[idx].raw == b, "stale responses broke a typed write", "C03/stale/write")
    sx.reach("stale-responses")


def two_nodes(discipline):
    """transfers to two different nodes interleaved at message level never see each other's data"""
    w = World(discipline)
    w.node2_noise = False        # node 2 transfers itself here: its channel only carries its own responses
    local2 = sx.mod("canopen.node.local").LocalNode(NID2, _od())
    w.nb.add_node(local2)
    a = sx.fresh_int("a", 0, 0xFFFFFFFF)
    b = sx.fresh_int("b", 0, 0xFFFFFFFF)
    idx = C.TYPE_INDEX[0x07]
    w.remote.sdo[idx].raw = a
    w.remote2.sdo[idx].raw = b
    sx.prove(w.remote.sdo[idx].raw == a, "node 1 value", "C03/two-nodes/node1")
    sx.prove(w.remote2.sdo[idx].raw == b, "node 2 value", "C03/two-nodes/node2")
    sx.prove(w.local.sdo[idx].raw == a, "node 1 store", "C03/two-nodes/store1")
    sx.prove(local2.sdo[idx].raw == b, "node 2 store", "C03/two-nodes/store2")
    sx.reach("two-nodes")


def after_failed_write(discipline):
    """a typed write that the node refuses at the end of a segmented transfer (text for a read-only object), then a
    good one to another object: the good value round-trips and the node holds exactly its encoding"""
    w = World(discipline)
    E = sx.mod("canopen.sdo.exceptions")
    bad = sx.fresh_str("bad", 9, 1, 127)
    try:
        w.remote.sdo["Serial"].raw = bad
        sx.fail("write to a read-only object accepted", "C03/after-failed/not-refused")
    except E.SdoAbortedError:
        pass
    good = sx.fresh_str("good", 8, 1, 127)
    w.remote.sdo["Visible"].raw = good
    it = sx.items(w.local.data_store[0x2100][0])
    sx.observe("stored", w.local.data_store[0x2100][0])
    sx.prove(len(it) == 8 and sx.all_([it[i] == sx.cps(good)[i] for i in range(min(8, len(it)))]) is not False,
             "bytes held after an earlier refused transfer", "C03/after-failed/stored-length")
    if len(it) == 8:
        sx.prove(sx.all_([it[i] == sx.cps(good)[i] for i in range(8)]), "bytes held are the encoding of the value",
                 "C03/after-failed/stored-bytes")
    sx.prove(w.remote.sdo["Visible"].raw == good, "read back after an earlier refused transfer",
             "C03/after-failed/remote-read")
    sx.reach("after-failed")


def shared_dictionary():
    """two local nodes created from one ObjectDictionary object (create_node/add_node allow it): a value written to
    one of them is not seen through the other"""
    netmod = sx.mod("canopen.network")
    na, nb = netmod.Network(), netmod.Network()
    na.send_message = lambda cid, data, remote=False: nb.notify(cid, sx.mkbytes(sx.items(data)), 1.0)
    nb.send_message = lambda cid, data, remote=False: na.notify(cid, sx.mkbytes(sx.items(data)), 1.0)
    od = _od()
    od[C.TYPE_INDEX[0x06]].default = 0x1111
    l1 = sx.mod("canopen.node.local").LocalNode(NID, od)
    l2 = sx.mod("canopen.node.local").LocalNode(NID2, od)
    nb.add_node(l1)
    nb.add_node(l2)
    r1 = sx.mod("canopen.node.remote").RemoteNode(NID, _od())
    r2 = sx.mod("canopen.node.remote").RemoteNode(NID2, _od())
    na.add_node(r1)
    na.add_node(r2)
    E = sx.mod("canopen.sdo.exceptions")
    a = sx.fresh_int("a", 0, 0xFFFFFFFF)
    h = sx.fresh_int("h", 0, 0xFFFF)
    r1.sdo[C.TYPE_INDEX[0x07]].raw = a            # an object without default
    r1.sdo[C.TYPE_INDEX[0x06]].raw = h            # an object with a default
    sx.prove(r1.sdo[C.TYPE_INDEX[0x07]].raw == a, "node 1 value", "C03/shared-od/node1")
    try:
        v = r2.sdo[C.TYPE_INDEX[0x07]].raw
        sx.fail("node 2 returns a value that was only written to node 1", "C03/shared-od/leak")
    except E.SdoAbortedError:
        pass
    sx.prove(r2.sdo[C.TYPE_INDEX[0x06]].raw == 0x1111, "node 2 still serves the default, not node 1's value",
             "C03/shared-od/default")
    sx.prove(len(l2.data_store) == 0, "node 2 holds nothing", "C03/shared-od/store")
    sx.reach("shared-od")


def slow_responses():
    """a request/response pair takes 0.4 s (another thread, a loaded gateway): with the client's RESPONSE_TIMEOUT raised to 1 s on the
    node - the documented knob - typed transfers still round-trip"""
    w = World("slow")
    w.remote.sdo.RESPONSE_TIMEOUT = 1.0
    E = sx.mod("canopen.sdo.exceptions")
    v = sx.fresh_int("v", 0, 0xFFFFFFFF)
    txt = sx.fresh_str("t", 9, 1, 127)
    try:
        w.remote.sdo[C.TYPE_INDEX[0x07]].raw = v
        w.remote.sdo["Visible"].raw = txt
        back = w.remote.sdo[C.TYPE_INDEX[0x07]].raw
        tback = w.remote.sdo["Visible"].raw
    except E.SdoError as e:
        sx.observe("exc", C.exc_name(e))
        sx.fail("a response inside the configured time-out was not waited for (%s)" % C.exc_name(e), "C03/slow/failed")
        return
    sx.prove((back == v) & (tback == txt), "round trip with slow responses", "C03/slow/value")
    sx.reach("slow")


def empty_after_other(discipline):
    """an object holding the empty value is read after a longer value was written to another object"""
    w = World(discipline)
    w.remote.sdo["Domain"].raw = b""
    other = sx.fresh_str("o", 9, 1, 127)
    w.remote.sdo["Visible"].raw = other
    got = w.remote.sdo["Domain"].raw
    sx.observe("got", got)
    sx.prove(len(sx.items(got)) == 0, "empty value read back after another transfer", "C03/empty-after-other/remote")
    sx.prove(len(sx.items(w.local.sdo["Domain"].raw)) == 0 and len(sx.items(w.local.data_store[0x2103][0])) == 0,
             "empty value held", "C03/empty-after-other/local")
    sx.prove(w.remote.sdo["Visible"].raw == other, "other value intact", "C03/empty-after-other/other")
    sx.reach("empty-after-other")


def concurrent_send(k):
    """client threads of different nodes share Network.send_message: requests must not be mixed up on their way
    to the bus (scenario shared with C10)"""
    from harness import c10
    c10.concurrent_send(k, tag="C03/concurrent-send")


def threaded_clients(nclients, preempt, stale=0, only=None, lines=True):
    """Responses are delivered by a dispatcher thread (python-can's notifier) while `nclients` client threads, one per
    remote node, each write a typed value and read it back.  Real OS threads under the deterministic scheduler: every
    schedule at synchronisation-point granularity, plus up to `preempt` preemptions placed at any source line of
    canopen code executed by any of the threads (context-bounded).  With `stale` > 0 each client's queue holds that
    many late answers of an earlier transfer to another object when the transfers start (the queue-swap path)."""
    from symx.sched import SCondition
    w = World("threaded")
    w.node2_noise = False
    local2 = sx.mod("canopen.node.local").LocalNode(NID2, _od())
    w.nb.add_node(local2)
    idx = C.TYPE_INDEX[0x07]
    vals = [sx.fresh_int("a", 0, 0xFFFFFFFF), sx.fresh_int("b", 0, 0xFFFFFFFF)][:nclients]
    remotes = [w.remote, w.remote2][:nclients]
    locals_ = [w.local, local2][:nclients]
    for r in remotes:
        for i in range(stale):
            late = sx.items(sx.fresh_bytes("late%d" % i, 4))
            r.sdo.on_response(0x580 + r.id, sx.new_bytearray([0x43, 0x00, 0x10, 0x00] + late), 0.5)
    sched = sx.scheduler(preempt=preempt, delay=True, only=only, lines=lines)
    cond = SCondition(sched)
    state = dict(stop=False)

    def send(origin, cid, data, remote=False):
        data = sx.mkbytes(list(sx.items(data)))      # the bus serialises the frame when send() is called
        with cond:
            w.log.append((origin, cid, data))
            w.parked.append((origin, cid, data))
            cond.notify_all()
    w.na.send_message = lambda cid, data, remote=False: send("a", cid, data)
    w.nb.send_message = lambda cid, data, remote=False: send("b", cid, data)

    def dispatcher():
        while True:
            with cond:
                while not w.parked and not state["stop"]:
                    cond.wait()
                if not w.parked:
                    return
                item = w.parked.pop(0)
            w._deliver(*item)
    got = [None] * nclients

    def client(i):
        remotes[i].sdo[idx].raw = vals[i]
        got[i] = remotes[i].sdo[idx].raw
    sched.spawn(dispatcher, "dispatcher")
    for i in range(1, nclients):
        sched.spawn(lambda i=i: client(i), "client%d" % i)
    client(0)
    sched.wait_until(lambda: sched.done("client"))      # then release the dispatcher
    with cond:
        state["stop"] = True
        cond.notify_all()
    sched.join()
    tag = "C03/threads/%d/p%d%s" % (nclients, preempt, "/stale" if stale else "")
    for i in range(nclients):
        sx.observe("got%d" % i, got[i])
        sx.prove(got[i] == vals[i], "value read back by client thread %d" % i, tag + "/read")
        sx.prove(locals_[i].sdo[idx].raw == vals[i], "value stored in node %d" % i, tag + "/stored")
    sx.reach("threads")


def jobs(tier):
    out = []
    q = tier == "quick"
    disciplines = ("inline", "deferred", "interleaved")
    for code in S301.INT_TYPES:
        for d in disciplines:
            for how in (("index", "name") if d == "inline" else ("index",)):
                out.append(dict(func="numeric", params=dict(code=code, discipline=d, how=how), weight=3))
    for d in disciplines:
        out.append(dict(func="boolean", params=dict(discipline=d)))
        out.append(dict(func="record_member", params=dict(discipline=d)))
        out.append(dict(func="same_names", params=dict(discipline=d)))
        out.append(dict(func="empty_over_default", params=dict(discipline=d)))
        out.append(dict(func="two_nodes", params=dict(discipline=d)))
    for k in (2, 3):
        out.append(dict(func="concurrent_send", params=dict(k=k), weight=3 ** k))
    # client threads + dispatcher thread under the delay-bounded scheduler (default schedule + k deviations): k = 1 at
    # every source line of canopen code, k = 2 (thorough: 3) at synchronisation points; thorough adds k = 2 at the
    # lines of the functions that touch the shared response queue
    hot = ["request_response", "read_response", "send_request", "on_response", "_write", "on_request", "notify"]
    for stale in (0, 1):
        out.append(dict(func="threaded_clients", params=dict(nclients=2, preempt=1, stale=stale), weight=2000))
        out.append(dict(func="threaded_clients", params=dict(nclients=2, preempt=2, stale=stale, lines=False), weight=300))
        out.append(dict(func="threaded_clients", params=dict(nclients=1, preempt=1, stale=stale), weight=300))
        if not q:
            out.append(dict(func="threaded_clients", params=dict(nclients=2, preempt=3, stale=stale, lines=False), weight=3000))
            out.append(dict(func="threaded_clients", params=dict(nclients=2, preempt=2, stale=stale, only=hot), weight=50000,
                            limits=dict(job_timeout_s=3000, max_paths=400000)))
    for d in disciplines:
        out.append(dict(func="after_failed_write", params=dict(discipline=d), weight=3))
    out.append(dict(func="shared_dictionary", params={}))
    out.append(dict(func="slow_responses", params={}))
    for d in disciplines:
        out.append(dict(func="empty_after_other", params=dict(discipline=d)))
    for k in (1, 2, 3):
        out.append(dict(func="stale_responses", params=dict(k=k)))
        for code in (S301.REAL32, S301.REAL64):
            out.append(dict(func="real", params=dict(code=code, discipline=d), weight=30, limits=dict(fast_ms=500)))
    tl = range(0, 7) if q else range(0, 13)
    for n in tl:
        for code in (VIS, UNI):
            for d in (disciplines if n in (0, 3, 5) else ("inline",)):
                out.append(dict(func="text", params=dict(code=code, n=n, discipline=d), weight=2 ** n))
    bl = list(range(0, 13)) if q else list(range(0, 41)) + [200]
    for n in bl:
        for code in (OCT, DOM):
            for d in (disciplines if n in (0, 4, 5, 8, 12) else ("deferred",)):
                out.append(dict(func="blob", params=dict(code=code, n=n, discipline=d), weight=n + 1))
    return out


META = dict(
    level_text="Bounded symbolic execution of the whole typed path: Variable.raw, SdoVariable.get_data/set_data, "
               "SdoBase/SdoRecord/SdoArray lookups, the real SdoClient and SdoServer, LocalNode.get_data/set_data, the "
               "codec and Network.subscribe/notify, with a remote node and a local node of the same id on two networks "
               "joined by a loopback. One symbolic value per data type covers its whole range; delivery inline, deferred "
               "until the client waits (the other thread at message granularity), and interleaved with symbolic unrelated "
               "frames and with SDO responses for a second remote node.",
    level_note="Threads: a dispatcher thread and one client thread per node run as real OS threads under a deterministic "
               "scheduler; explored are the default (round-robin, non-preemptive) schedule plus every placement of up to k "
               "deviations (delay bounding): k=1 at every source line of canopen code executed by any thread, k=2 (thorough 3) "
               "at synchronisation points, thorough k=2 at the lines of the functions around the response queue. Preemption "
               "inside a source line and more deviations are outside.",
    bounds=dict(quick="all 16 integer types over their full range, BOOLEAN, REAL32 (float32-representable) and REAL64 "
                      "(non-NaN), VISIBLE/UNICODE strings of length 0..6 (no trailing NUL, BMP without surrogates), "
                      "OCTET_STRING/DOMAIN of length 0..12; access by index, name, 'Record.Member', array member; three "
                      "delivery disciplines; two nodes; sibling members written after each other; every frame delivered in a "
                      "receive buffer that is overwritten once notify() has returned",
                thorough="strings 0..12, byte strings 0..40 and 200"),
    outside_bounds=["thread schedules with more than k deviations from the default schedule (k as stated), preemption between two bytecodes of one source line, more than 2 client threads, python-can's own virtual bus", "NaN payloads", "strings with trailing "
                    "NUL", "non-BMP text"],
    assumptions=["at most 2 noise injections per scenario; noise ids outside every predefined connection set"],
    stubs=["queue with delivery hook", "struct", "bytes", "io model", "logging", "Network.send_message replaced by the loopback"],
    required_reach=["threads", "empty-over-default", "same-names", "concurrent-send", "after-failed", "shared-od", "slow", "empty-after-other", "numeric-inline", "numeric-deferred", "numeric-interleaved", "access-index", "access-name", "boolean",
                    "real", "text", "blob", "domain-segmented", "record", "two-nodes", "stale-responses"],
    limits=dict(quick=dict(max_decisions=50000), thorough=dict(max_decisions=100000)),
    validate_every=dict(quick=7, thorough=50),
    max_validate=dict(quick=10, thorough=10),
)
