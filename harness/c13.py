"""C13 - SDO block upload returns exactly the server's data or fails visibly."""
from symx import api as sx
from harness import common as C
from harness.sdo_rig import ClientRig
from refmodels.block_server import BlockUploadServer

CLAIMED = True


def _exc():
    return sx.mod("canopen.sdo.exceptions")


class FaultRig(ClientRig):
    """fault injection on server->client frames of a block upload"""

    def __init__(self, server, fault):
        ClientRig.__init__(self, server)
        self.fault = fault          # None | ("lose", k) | ("flip", k) | ("crc",) | ("end",)
        self.segno = 0
        self.injected = False

    def send_message(self, can_id, data, remote=False):
        self.sent.append((can_id, data))
        was = self.server.state
        resps = self.server.on_request(data)
        out = []
        for r in resps:
            f = sx.items(r)
            is_segment = self.server.state == "wait-ack"
            is_end = self.server.state == "wait-end" and was == "wait-ack"
            if is_segment:
                k = self.segno
                self.segno += 1
                if self.fault and self.fault[0] == "lose" and k == self.fault[1]:
                    self.injected = True
                    continue
                if self.fault and self.fault[0] == "flip" and k == self.fault[1]:
                    self.injected = True
                    byte = 1 + sx.choice(7, "flipbyte")
                    bit = sx.choice(8, "flipbit")
                    f = list(f)
                    f[byte] = f[byte] ^ (1 << bit)
                    r = sx.mkbytes(f)
            elif is_end and self.fault:
                if self.fault[0] == "crc":
                    self.injected = True
                    bad = sx.fresh_int("badcrc", 0, 0xFFFF)
                    sx.assume(bad != (f[1] | (f[2] << 8)))
                    r = sx.mkbytes([f[0], bad & 0xFF, bad >> 8] + list(f[3:]))
                elif self.fault[0] == "endn":
                    # the end frame's count of unused bytes is corrupted (a different legal count)
                    self.injected = True
                    n2 = sx.fresh_int("badn", 0, 7)
                    sx.assume(n2 != ((f[0] >> 2) & 7))
                    r = sx.mkbytes([(f[0] & 0xE3) | (n2 << 2)] + list(f[1:]))
                elif self.fault[0] == "end":
                    self.injected = True
                    cmd = sx.fresh_byte("badend")
                    sx.assume(((cmd & 0xE0) != 0xC0) | ((cmd & 3) != 1))
                    sx.assume(cmd != 0x80)
                    r = sx.mkbytes([cmd] + list(f[1:]))
            out.append(r)
        for r in out:
            self.client.on_response(self.client.tx_cobid, r, 0.0)


def upload(n, crc, sized, how, fault=None):
    E = _exc()
    value = sx.fresh_bytes("v", n)
    # crc: 1 negotiated, 0 the server cannot, 2 the client does not ask, 3 the client does not ask and the server's sc
    # bit states its capability all the same (no CRC is generated then: the field is 0)
    srv = BlockUploadServer(sx.items(value), crc=bool(crc), size_indicated=bool(sized), sc_capability=(crc == 3))
    rig = FaultRig(srv, tuple(fault) if fault else None)
    idx = sx.fresh_int("idx", 0, 0xFFFF)
    sub = sx.fresh_int("sub", 0, 0xFF)
    srv.expect_mux = (idx, sub)
    if fault:
        srv.check = False
    tag = "C13/upload/%s" % (fault[0] if fault else "clean")
    got = None
    try:
        if how.startswith("chunks:") or how.startswith("part:"):   # buffered stream read in pieces: "chunks:<buffering>:<chunk>"
            buffering = int(how.split(":")[1])
        else:
            buffering = 1024 if how in ("buffered", "exact") else 0
        fp = rig.client.open(idx, sub, "rb", buffering=buffering, block_transfer=True,
                             request_crc_support=(crc not in (2, 3)))
        try:
            if how == "raw7":
                parts = []
                while True:
                    d = fp.read(7)
                    if not d:
                        break
                    parts.extend(sx.items(d))
                got = sx.mkbytes(parts)
            elif how == "exact":
                # the caller asks for exactly the announced number of bytes and stops there
                got = fp.read(n)
            elif how == "raw7-size":
                parts = []
                while fp.size is not None and len(parts) < fp.size:
                    d = fp.read(7)
                    if not d:
                        break
                    parts.extend(sx.items(d))
                got = sx.mkbytes(parts)
            elif how.startswith("part:"):
                # a first read of k bytes, then "the rest" with read() (raw: readall; buffered: read_all)
                k = int(how.split(":")[2])
                first = fp.read(k)
                rest = fp.read()
                got = sx.mkbytes(sx.items(first) + sx.items(rest))
            elif how.startswith("chunks:"):
                chunk = int(how.split(":")[2])
                parts = []
                while True:
                    d = fp.read(chunk)
                    if not d:
                        break
                    sx.prove(len(d) <= chunk, "read(n) returns at most n bytes", tag + "/read-size")
                    parts.extend(sx.items(d))
                got = sx.mkbytes(parts)
            else:
                got = fp.read()
            if how in ("rawall", "raw7", "raw7-size"):
                sx.prove(fp.size == (n if sized else None), "announced size", tag + "/size")
        finally:
            fp.close()
            nsent = len(rig.sent)
            fp.close()                       # closing a closed stream has no effect (io contract)
            sx.prove(len(rig.sent) == nsent, "second close() sent another frame", tag + "/close-twice")
    except ValueError as e:
        # not an SDO error: the stream machinery itself gave up (still no wrong data, but an undisturbed transfer
        # must succeed)
        sx.observe("exc", C.exc_name(e))
        if not fault:
            sx.fail("undisturbed block upload raised ValueError", tag + "/%s/raises-ValueError" % how.replace(":", "-"))
            return
        sx.reach("failed-visibly")
        return
    except (E.SdoCommunicationError, E.SdoAbortedError) as e:
        sx.observe("exc", C.exc_name(e))
        got = None
        if not fault:
            sx.fail("undisturbed block upload failed with %s" % C.exc_name(e), tag + "/failed")
            return
        sx.reach("failed-visibly")
        return
    sx.observe("got", got)
    same = sx.eq_bytes(got, value) if len(sx.items(got)) == n else False
    if not fault:
        sx.prove(len(sx.items(got)) == n, "returned length", tag + "/length")
        sx.prove(same, "returned bytes equal the server's value", tag + "/bytes")
        sx.prove(srv.finished == 1 and srv.state == "idle", "transfer closed with the end confirmation", tag + "/closed")
        for ackseq, blk in srv.acks:
            sx.prove((blk >= 1) & (blk <= 127), "acknowledged block size", tag + "/ack-blksize")
        sx.reach("clean")
    else:
        # a disturbed transfer that returns normally must still return exactly the value
        sx.prove(same, "returned data differs from the server's value", tag + "/wrong-data")
        if fault[0] in ("crc", "end", "flip", "endn"):
            # nothing can repair a wrong checksum, a corrupted segment or a malformed end frame
            sx.fail("a %s fault did not end in an SDO error" % fault[0], tag + "/not-detected")
        sx.reach("returned-after-fault")


def small_blocks(n, blksize, crc):
    """BlockUploadStream.blksize is a public class attribute (the sub-block size the client asks for): with a smaller
    value the transfer has more sub-blocks, everything else holds as before"""
    BUS = sx.mod("canopen.sdo.client").BlockUploadStream
    old = BUS.blksize
    BUS.blksize = blksize
    try:
        upload(n, crc, 1, "buffered")
    finally:
        BUS.blksize = old
    sx.reach("small-blocks")


def second_upload(n1, n2, how):
    """a block upload is abandoned (the stream is closed after one read) or fails, segments of it are still queued;
    the next block upload on the same client is undisturbed and returns exactly its value"""
    E = _exc()
    v1 = sx.fresh_bytes("v1", n1)
    v2 = sx.fresh_bytes("v2", n2)
    srv = BlockUploadServer(sx.items(v1), crc=True, size_indicated=True)
    srv.check = False
    rig = FaultRig(srv, None)
    srv.expect_mux = None
    tag = "C13/second-upload/%s" % how
    try:
        fp = rig.client.open(0x2000, 0, "rb", buffering=0, block_transfer=True)
        fp.read(7)
        if how == "abandon":
            fp.close()
        else:
            # a stray frame makes the first transfer fail
            rig.client.on_response(rig.client.tx_cobid, sx.mkbytes([0x7F, 0, 0, 0, 0, 0, 0, 0]), 0.0)
            try:
                while fp.read(7):
                    pass
            except (E.SdoCommunicationError, E.SdoAbortedError):
                pass
            fp.close()
    except (E.SdoCommunicationError, E.SdoAbortedError) as e:
        sx.observe("exc1", C.exc_name(e))
    # a fresh, conformant server state for the second transfer
    srv2 = BlockUploadServer(sx.items(v2), crc=True, size_indicated=True)
    rig.server = srv2
    try:
        fp = rig.client.open(0x2001, 0, "rb", buffering=1024, block_transfer=True)
        try:
            got = fp.read()
        finally:
            fp.close()
    except (E.SdoCommunicationError, E.SdoAbortedError) as e:
        sx.observe("exc2", C.exc_name(e))
        sx.fail("the block upload after an abandoned one failed (%s)" % C.exc_name(e), tag + "/failed")
        return
    sx.prove(len(sx.items(got)) == n2 and sx.eq_bytes(got, v2) is not False, "second upload returned another length",
             tag + "/length")
    if len(sx.items(got)) == n2:
        sx.prove(sx.eq_bytes(got, v2), "second upload returned other data", tag + "/bytes")
    sx.reach("second-upload")


def jobs(tier):
    out = []
    q = tier == "quick"
    for n, blk in ((225, 32), (50, 3), (100, 1)) if q else ((225, 32), (50, 3), (100, 1), (448, 64), (897, 126), (30, 2)):
        for crc in (1, 0):
            out.append(dict(func="small_blocks", params=dict(n=n, blksize=blk, crc=crc), weight=n))
    for how in ("abandon", "fail"):
        out.append(dict(func="second_upload", params=dict(n1=50, n2=30, how=how), weight=80))
    lens = [1, 6, 7, 8, 14, 15, 21, 22, 50] if q else list(range(1, 65)) + [888, 889, 890, 896, 1000, 1778, 1779]
    for n in lens:
        for crc in (1, 0):
            for sized in (1, 0):
                for how in ("buffered", "rawall", "raw7"):
                    if n > 100 and how != "buffered":
                        continue
                    out.append(dict(func="upload", params=dict(n=n, crc=crc, sized=sized, how=how), weight=n))
    # the buffered stream read in pieces (buffer sizes around and far above a segment; pieces that end just before the
    # end of the buffer so that the reader refills a nearly full buffer)
    chunked = [(50, "chunks:16:15"), (50, "chunks:4:3"), (64, "chunks:8:20"), (100, "chunks:100:99"), (30, "chunks:2:1"),
               (2100, "chunks:1024:1023")]
    if not q:
        chunked += [(200, "chunks:%d:%d" % (b, c)) for b in (2, 3, 5, 6, 7, 8, 13, 14, 15, 16, 64) for c in (1, b - 1, b, b + 1, 2 * b + 3)
                    if c >= 1] + [(3000, "chunks:1024:500"), (3000, "chunks:1024:1024"), (9000, "chunks:8192:8190")]
    for n, how in chunked:
        for crc in (1, 0):
            out.append(dict(func="upload", params=dict(n=n, crc=crc, sized=1, how=how), weight=n))
    # a first partial read, then read() for the rest (raw and buffered)
    for n, how in ((100, "part:1024:10"), (100, "part:0:7"), (30, "part:0:7"), (50, "part:16:3"), (22, "part:0:21"), (22, "part:1024:22")):
        for sized in (1, 0):
            out.append(dict(func="upload", params=dict(n=n, crc=1, sized=sized, how=how), weight=n))
    # past 4096 bytes (one value in the quick tier; the thorough tier goes to 9000)
    out.append(dict(func="upload", params=dict(n=4100, crc=1, sized=1, how="buffered"), weight=5000))
    if q:
        out.append(dict(func="upload", params=dict(n=889, crc=1, sized=1, how="buffered"), weight=900))
        out.append(dict(func="upload", params=dict(n=890, crc=1, sized=1, how="buffered"), weight=900))
    # faults (CRC negotiated)
    for n in ((22, 50) if q else (14, 22, 50, 70, 100)):
        nseg = -(-n // 7)
        for k in range(nseg):
            out.append(dict(func="upload", params=dict(n=n, crc=1, sized=1, how="buffered", fault=["lose", k]),
                            weight=n * 3))
            # a lost segment is repaired by the retransmission protocol also when no CRC protects the transfer
            out.append(dict(func="upload", params=dict(n=n, crc=0, sized=1, how="buffered", fault=["lose", k]),
                            weight=n * 3))
        out.append(dict(func="upload", params=dict(n=n, crc=1, sized=1, how="buffered", fault=["crc"]), weight=n))
        # the caller reads exactly the announced size and stops: the check must not wait for a further read
        for how in ("exact", "raw7-size"):
            out.append(dict(func="upload", params=dict(n=n, crc=1, sized=1, how=how, fault=["crc"]), weight=n))
            out.append(dict(func="upload", params=dict(n=n, crc=1, sized=1, how=how), weight=n))
        out.append(dict(func="upload", params=dict(n=n, crc=2, sized=1, how="buffered"), weight=n))
        out.append(dict(func="upload", params=dict(n=n, crc=3, sized=1, how="buffered"), weight=n))
        out.append(dict(func="upload", params=dict(n=n, crc=3, sized=0, how="rawall"), weight=n))
        out.append(dict(func="upload", params=dict(n=n, crc=1, sized=1, how="buffered", fault=["end"]), weight=n))
        # the unused-byte count of the end response corrupted: detectable when the server announced the size
        if n == 22:
            # (small values: whether the CRC of the wrongly trimmed data collides is a solver question that does not finish
            # for longer symbolic values)
            for m in (3, 10, 14):
                out.append(dict(func="upload", params=dict(n=m, crc=1, sized=1, how="buffered", fault=["endn"]), weight=m * 50))
            out.append(dict(func="upload", params=dict(n=30, crc=0, sized=1, how="rawall", fault=["endn"]), weight=30))
        # the same faults when the server does not indicate the size
        out.append(dict(func="upload", params=dict(n=n, crc=1, sized=0, how="buffered", fault=["crc"]), weight=n))
        out.append(dict(func="upload", params=dict(n=n, crc=1, sized=0, how="rawall", fault=["lose", 1]), weight=n))
    # several sub-blocks (127 segments each): the segment lost is the last of a sub-block, the first of the next one
    # or one in the middle of a later sub-block; with and without CRC
    for n, ks in ((2000, (126, 127, 128, 200, 253, 254)),) if q else ((2000, (0, 1, 126, 127, 128, 200, 253, 254, 255, 280, 285)),
                                                                      (1778, (126, 127, 253)), (1779, (127, 253, 254))):
        for k in ks:
            for crc in (1, 0):
                out.append(dict(func="upload", params=dict(n=n, crc=crc, sized=1, how="buffered", fault=["lose", k]),
                                weight=n))
    for n in ((7, 14) if q else (7, 14, 21)):
        nseg = -(-n // 7)
        for k in range(nseg):
            for sized in (1, 0):
                out.append(dict(func="upload", params=dict(n=n, crc=1, sized=sized, how="buffered", fault=["flip", k]),
                                weight=n * 50, limits=dict(query_timeout_ms=300000, fast_ms=500)))
    return out


META = dict(
    level_text="Bounded symbolic execution of BlockUploadStream (init, read, readinto, _retransmit, _ack_block, "
               "_end_upload, close) against a reference CiA 301 block-upload server: value bytes and multiplexer symbolic, "
               "lengths concrete per job incl. the 127*7 block boundary; faults on server->client frames: every single "
               "lost segment position, a flipped bit (byte and bit symbolic) in every segment, a wrong CRC (symbolic), a "
               "malformed end frame (symbolic command byte). Because the payload is symbolic the solver searches for "
               "payloads whose mangled stream still passes the CRC.",
    level_note="CRC: the engine's z3 model of binascii.crc_hqx (the C function is trusted). Bit-flip proofs are XOR-heavy "
               "and only finish for short values (stated bound).",
    bounds=dict(quick="undisturbed: lengths 1,6,7,8,14,15,21,22,50,889,890 x CRC on/off x size indicated or not x 3 reading "
                      "modes; faults with CRC: every lost segment for 22 and 50 bytes, wrong CRC, malformed end frame; "
                      "bit flips for 7 and 14 bytes; buffered stream read in pieces (6 buffer/piece combinations incl. 1024/1023)",
                thorough="every length 1..64, 888..890, 896, 1000, 1778, 1779; losses for 14..100 bytes; bit flips up to 21 bytes; 58 buffer/piece combinations"),
    outside_bounds=["corruption (bit flips, wrong CRC) without CRC negotiated (the statement does not promise detection; lost segments are covered without CRC as well)", "more than one fault",
                    "bit flips in values longer than 21 bytes (unsat proofs time out)", "loss of client->server frames"],
    assumptions=["the server restarts sequence numbers at 1 after every acknowledge, as CiA 301 prescribes"],
    stubs=["struct", "binascii.crc_hqx (z3 model)", "queue", "time", "io model (BufferedWriter/BufferedReader after CPython bufferedio.c, views into the recycled buffer)", "logging"],
    required_reach=["clean", "failed-visibly", "returned-after-fault", "small-blocks", "second-upload"],
    limits=dict(quick=dict(max_decisions=50000), thorough=dict(max_decisions=200000)),
    validate_every=dict(quick=1, thorough=1),
    max_validate=dict(quick=3, thorough=3),
)
