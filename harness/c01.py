"""C01 - SDO client transfers exactly the caller's bytes in conformant CiA 301 frames."""
from symx import api as sx
from harness import common as C
from harness.sdo_rig import ClientRig
from refmodels.sdo_server import RefServer

CLAIMED = True

NUM_BY_WIDTH = {1: 0x05, 2: 0x06, 3: 0x16, 4: 0x07, 8: 0x1B}


def _exc():
    return sx.mod("canopen.sdo.exceptions")


# ---- family 1: downloads, end to end --------------------------------------------------------------
def _do_download(rig, srv, idx, sub, payload, mode, chunking, tag):
    n = len(payload)
    client = rig.client
    srv.expect_mux = (idx, sub)
    before = len(srv.commits)
    if mode == "api":
        client.download(idx, sub, payload)
    elif mode == "api_force":
        client.download(idx, sub, payload, force_segment=True)
    elif mode.startswith("text"):
        # text mode: "text<buffering>_<size|nosize>"; the caller's text is ASCII, the payload its encoding
        kind, sized = mode.split("_")
        buffering = 1 if kind == "textnl" else int(kind[4:])
        size = n if sized == "size" else None
        fp = client.open(idx, sub, "w", encoding="ascii", buffering=buffering, size=size)
        text = sx.mkstr(sx.items(payload))      # ASCII: code point i is byte i
        pos = 0
        i = 0
        while pos < n:
            c = 1 + sx.choice(min(n - pos, 9), "chunk%d" % i) if chunking == "all" else min(n - pos, int(chunking))
            k = fp.write(text[pos:pos + c])
            sx.prove(k == c, "text write accepts everything", tag + "/write-count")
            pos += c
            i += 1
        fp.close()
        _close_again(rig, fp, tag)
    else:
        kind, sized = mode.split("_")          # raw|bufc|bufp|bufn  x  size|nosize|force
        size = n if sized in ("size", "force") else None
        force = sized == "force"
        if kind == "raw":
            buffering = 0
        else:
            buffering = 7 if chunking != "buf3" else 3
            sx.env().io_policy = {"bufc": "c", "bufp": "pyio", "bufn": "nondet"}[kind]
        fp = client.open(idx, sub, "wb", buffering=buffering, size=size, force_segment=force)
        expedited = size is not None and 1 <= size <= 4 and not force
        pos = 0
        if kind == "raw" and expedited:
            k = fp.write(payload)
            sx.prove(k == n, "expedited write returns the byte count", tag + "/write-count")
        else:
            i = 0
            while pos < n:
                rem = n - pos
                if chunking == "all":
                    c = 1 + sx.choice(min(rem, 9), "chunk%d" % i)
                elif chunking == "buf3":
                    c = min(rem, 5)
                else:
                    c = min(rem, int(chunking))
                k = fp.write(payload[pos:pos + c])
                if kind == "raw":
                    sx.prove((k >= 1) & (k <= c) & (k <= 7), "raw write returns 1..min(len,7)",
                             tag + "/write-count")
                else:
                    sx.prove(k == c, "buffered write accepts everything", tag + "/write-count")
                pos += k
                i += 1
        fp.close()
        _close_again(rig, fp, tag)
    sx.prove(len(srv.commits) == before + 1, "server completed exactly one download", tag + "/completed")
    if len(srv.commits) != before + 1:
        return
    ci, cs, data = srv.commits[-1]
    sx.observe("committed", sx.mkbytes(data))
    sx.prove((ci == idx) & (cs == sub), "committed at the addressed object", tag + "/address")
    sx.prove(len(data) == n, "committed length equals payload length", tag + "/length")
    sx.prove(sx.eq_bytes(sx.mkbytes(data), payload), "committed bytes equal the payload", tag + "/bytes")
    sx.prove(srv.state == "idle", "transfer closed", tag + "/closed")


def _close_again(rig, fp, tag):
    """close() of an already closed stream has no effect (io contract; `with` plus an explicit close does it)"""
    nsent = len(rig.sent)
    try:
        fp.close()
    except Exception as e:
        sx.observe("exc", C.exc_name(e))
        sx.fail("second close() raised %s" % C.exc_name(e), tag + "/close-twice-raises")
    sx.prove(len(rig.sent) == nsent, "second close() emits no frame", tag + "/close-twice")


def download(n, mode, chunking="all", n2=None, mode2="api"):
    srv = RefServer("C01")
    rig = ClientRig(srv)
    idx = sx.fresh_int("idx", 0, 0xFFFF)
    sub = sx.fresh_int("sub", 0, 0xFF)
    payload = sx.fresh_bytes("p", n)
    if mode.startswith("text"):
        for i, b in enumerate(sx.items(payload)):
            sx.assume(b < 128)
            if mode.startswith("textnl"):
                # line-buffered text with newlines at fixed places (every 5th character) and nowhere else
                sx.assume((b == 10) if i % 5 == 4 else ((b != 10) & (b != 13)))
    tag = "C01/download/%s" % mode
    _do_download(rig, srv, idx, sub, payload, mode, chunking, tag)
    sx.reach("download-" + mode.split("_")[0])
    if n2 is not None:
        idx2 = sx.fresh_int("idx2", 0, 0xFFFF)
        sub2 = sx.fresh_int("sub2", 0, 0xFF)
        p2 = sx.fresh_bytes("q", n2)
        _do_download(rig, srv, idx2, sub2, p2, mode2, "7", "C01/download-second/%s" % mode2)
        sx.reach("back-to-back")


# ---- family 2: uploads, end to end ------------------------------------------------------------------
def upload(n, style, last, odkind, how, seg_len=7, second=False):
    srv = RefServer("C01")
    tag = "C01/upload/%s/%s" % (how, odkind)
    if odkind == "none":
        od = None
        idx = sx.fresh_int("idx", 0, 0xFFFF)
        sub = sx.fresh_int("sub", 0, 0xFF)
        width = None
    else:
        od = C.odmod().ObjectDictionary()
        sub_override = None
        if odkind == "arr2":
            # element of an array that is not listed one by one (created on demand from sub-index 1)
            width = 2
            od.add_object(C.mkarray("cells", 0x2000, [C.mkvar("n", 0x2000, 0, 0x05, "ro", default=8),
                                                       C.mkvar("cell", 0x2000, 1, 0x06)]))
            sub_override = 5
        elif odkind == "rec4":
            width = 4
            od.add_object(C.mkrecord("rec", 0x2000, [C.mkvar("n", 0x2000, 0, 0x05, "ro", default=2),
                                                     C.mkvar("a", 0x2000, 1, 0x05), C.mkvar("b", 0x2000, 2, 0x04)]))
            sub_override = 2
        elif odkind == "bool":
            width = 1             # BOOLEAN is a fixed-size (one byte) entry as well
            od.add_object(C.mkvar("flag", 0x2000, 0, 0x01))
        elif odkind == "real4" or odkind == "real8":
            width = int(odkind[4:])
            od.add_object(C.mkvar("real", 0x2000, 0, 0x08 if width == 4 else 0x11))
        elif odkind.startswith("num"):
            width = int(odkind[3:])
            od.add_object(C.mkvar("num", 0x2000, 0, NUM_BY_WIDTH[width]))
        else:
            width = None
            od.add_object(C.mkvar("text", 0x2000, 0, 0x09 if odkind == "str" else 0x0F))
        idx, sub = 0x2000, (sub_override if sub_override is not None else 0)
    rig = ClientRig(srv, od)
    client = rig.client
    _one_upload(rig, srv, idx, sub, n, style, last, width, how, seg_len, tag, "v")
    sx.reach("upload-" + how)
    sx.reach("style-" + style)
    if second:
        _one_upload(rig, srv, idx, sub, 5, "seg-size", "full", width, "api", 7, tag + "/second", "w")
        sx.reach("upload-back-to-back")


def mixed(order, n1, n2, n3=9):
    """a history of transfers in both directions on one client object against the checking server: every transfer has
    to satisfy the frame obligations whatever ran before it (frames are built afresh, nothing of an earlier transfer
    shows in reserved bytes, toggles and sizes restart)"""
    srv = RefServer("C01")
    rig = ClientRig(srv)
    lens = [n1, n2, n3]
    for k, d in enumerate(order):
        idx = sx.fresh_int("idx%d" % k, 0, 0xFFFF)
        sub = sx.fresh_int("sub%d" % k, 0, 0xFF)
        tag = "C01/mixed/%s/%d" % (order, k)
        if d == "d":
            _do_download(rig, srv, idx, sub, sx.fresh_bytes("p%d" % k, lens[k]), ("api", "raw_nosize", "api_force")[k % 3],
                         "7", tag)
        else:
            style = ("seg-size", "seg-nosize", "exp-size")[k % 3] if lens[k] > 4 or lens[k] == 0 else "exp-size"
            if style == "exp-size" and not 1 <= lens[k] <= 4:
                style = "seg-size"
            _one_upload(rig, srv, idx, sub, lens[k], style, "full", None, ("api", "rawall", "raw7")[k % 3], 7, tag,
                        "v%d" % k)
    sx.reach("mixed")


def stale_queue(k, n):
    """k answers of earlier, timed-out requests for the *same* object arrive late and sit in the client's queue: the
    next upload returns the value the server holds now (all of them are discarded before the request goes out)"""
    srv = RefServer("C01")
    rig = ClientRig(srv)
    idx = sx.fresh_int("idx", 0, 0xFFFF)
    sub = sx.fresh_int("sub", 0, 0xFF)
    for i in range(k):
        old = sx.items(sx.fresh_bytes("old%d" % i, 4))
        rig._rx(sx.mkbytes([0x43, sx.byte_of(idx, 0), sx.byte_of(idx, 1), sub] + old))
    _one_upload(rig, srv, idx, sub, n, "exp-size" if 1 <= n <= 4 else "seg-size", "full", None, "api", 7,
                "C01/stale-queue/%d" % k, "v")
    sx.reach("stale-queue")


def lost_request(direction, n, lost, retries):
    """SdoClient.MAX_RETRIES raised by the application (a documented knob) on a bus that loses one *request* frame:
    the client asks again; everything the server gets to see is still a legal frame for its protocol step and the
    transfer completes with exactly the data"""
    srv = RefServer("C01")
    rig = ClientRig(srv)
    rig.client.MAX_RETRIES = retries
    rig.lose_requests = {lost}
    idx = sx.fresh_int("idx", 0, 0xFFFF)
    sub = sx.fresh_int("sub", 0, 0xFF)
    tag = "C01/lost-request/%s/%d" % (direction, lost)
    if direction == "download":
        _do_download(rig, srv, idx, sub, sx.fresh_bytes("p", n), "api", "7", tag)
    else:
        _one_upload(rig, srv, idx, sub, n, "seg-size", "full", None, "api", 7, tag, "v")
    sx.prove(len(srv.aborts_seen) == 0, "the client aborted a transfer that a repeated request completes", tag + "/aborted")
    sx.reach("lost-request")


def upload_redeclared(w1, w2):
    """what the dictionary declares is looked at for every upload: an entry read once and then declared differently
    (registered after a raw probe when w1 is None, or given another data type) is cut to the *current* declaration"""
    srv = RefServer("C01")
    od = C.odmod().ObjectDictionary()
    if w1 is not None:
        od.add_object(C.mkvar("num", 0x2000, 0, NUM_BY_WIDTH[w1]))
    rig = ClientRig(srv, od)
    tag = "C01/upload-redeclared/%s-%s" % (w1, w2)
    _one_upload(rig, srv, 0x2000, 0, 8, "seg-size", "full", w1, "api", 7, tag + "/first", "v")
    if w1 is None:
        od.add_object(C.mkvar("num", 0x2000, 0, NUM_BY_WIDTH[w2]))
    elif w2 is None:
        od[0x2000].data_type = 0x0F
    else:
        od[0x2000].data_type = NUM_BY_WIDTH[w2]
    _one_upload(rig, srv, 0x2000, 0, 8, "seg-nosize", "full", w2, "api", 7, tag + "/second", "w")
    sx.reach("redeclared")


def _one_upload(rig, srv, idx, sub, n, style, last, width, how, seg_len, tag, vname):
    client = rig.client
    value = sx.fresh_bytes(vname, n)
    srv.value = sx.items(value)
    srv.upload_style = style
    srv.last_style = last
    srv.seg_len = seg_len
    srv.expect_mux = (idx, sub)
    announced = n if style in ("exp-size", "seg-size") else None
    fin0 = srv.finished
    if how == "api":
        got = client.upload(idx, sub)
        if width is not None and (announced is None or width < announced):
            exp = value[:width]
            sx.reach("truncated")
        else:
            exp = value
    else:
        if how == "raw7":
            fp = client.open(idx, sub, "rb", buffering=0)
            parts = []
            while True:
                d = fp.read(7)
                if not d:
                    break
                sx.prove(len(d) <= 7, "raw read returns at most one segment", tag + "/read-size")
                parts.extend(sx.items(d))
            got = sx.mkbytes(parts)
        elif how == "rawall":
            fp = client.open(idx, sub, "rb", buffering=0)
            got = fp.read()
        elif how == "readinto":
            fp = client.open(idx, sub, "rb", buffering=0)
            parts = []
            while True:
                buf = _buffer(8)
                k = fp.readinto(buf)
                if not k:
                    break
                parts.extend(sx.items(buf)[:k])
            got = sx.mkbytes(parts)
        elif how.startswith("text"):   # text mode: "text:<buffering>:<chunk>"; value is ASCII without CR
            _, bsz, chunk = how.split(":")
            for b in sx.items(value):
                sx.assume((b < 128) & (b != 13))
            if chunk == "lines":
                # documented use: outfile.writelines(infile) - iterate over the lines; every 5th byte is a newline
                for i, b in enumerate(sx.items(value)):
                    sx.assume((b == 10) if i % 5 == 4 else (b != 10))
            fp = client.open(idx, sub, "r", encoding="ascii", buffering=int(bsz))
            if chunk == "lines":
                lines = list(fp)
                sx.prove(all(len(l) <= 5 for l in lines) and len(lines) == -(-n // 5), "one item per line",
                         tag + "/lines")
                parts = []
                for l in lines:
                    parts.extend(sx.cps(l))
                txt = sx.mkstr(parts)
            elif chunk == "all":
                txt = fp.read()
            else:
                parts = []
                while True:
                    d = fp.read(int(chunk))
                    if not d:
                        break
                    sx.prove(len(d) <= int(chunk), "text read returns at most the requested count", tag + "/read-size")
                    parts.extend(sx.cps(d))
                txt = sx.mkstr(parts)
            got = sx.mkbytes(sx.cps(txt))
            fp.close()
            _close_again(rig, fp, tag)
            exp = value
            sx.observe("got", got)
            sx.prove(len(sx.items(got)) == len(sx.items(exp)), "returned length", tag + "/length")
            sx.prove(sx.eq_bytes(got, exp), "returned text is the server's value", tag + "/bytes")
            sx.prove(srv.finished == fin0 + 1 and srv.state == "idle", "upload ran to completion", tag + "/completed")
            return
        else:   # buffered: "buf:<policy>:<buffering>:<chunk>"
            _, pol, bsz, chunk = how.split(":")
            sx.env().io_policy = pol
            fp = client.open(idx, sub, "rb", buffering=int(bsz))
            try:
                if chunk == "all":
                    got = fp.read()
                else:
                    parts = []
                    while True:
                        d = fp.read(int(chunk))
                        if not d:
                            break
                        parts.extend(sx.items(d))
                    got = sx.mkbytes(parts)
            except ValueError as e:
                sx.observe("exc", "ValueError")
                sx.fail("buffered read raised ValueError",
                        "C01/upload/buffered-read/buffer%s/raises-ValueError" % bsz)
                return
        sx.prove(fp.raw.size == announced if how.startswith("buf") else fp.size == announced,
                 "stream size is the announced size", tag + "/size")
        fp.close()
        _close_again(rig, fp, tag)
        exp = value
    sx.observe("got", got)
    sx.prove(len(sx.items(got)) == len(sx.items(exp)), "returned length", tag + "/length")
    sx.prove(sx.eq_bytes(got, exp), "returned bytes equal the server's value", tag + "/bytes")
    sx.prove(srv.finished == fin0 + 1 and srv.state == "idle", "upload ran to completion", tag + "/completed")


def _buffer(n):
    if sx.symbolic():
        from symx.models.io_model import FixedBuf
        return FixedBuf([0] * n)
    return bytearray(n)


# ---- family 3: one segment from an arbitrary stream state (no length bound) -------------------------
class _Peer:
    """permissive peer: answers every request with an arbitrary 8-byte frame"""

    def __init__(self):
        self.sent = []
        self.replies = []

    script = ()

    def send_message(self, can_id, data, remote=False):
        if self.script:
            # canned answers first (used to get a stream object built by its own constructor)
            r, self.script = self.script[0], self.script[1:]
            self.client.on_response(self.client.tx_cobid, bytes(r), 0.0)
            return
        self.sent.append((can_id, data))
        r = sx.fresh_bytes("resp%d" % len(self.sent), 8)
        self.replies.append(r)
        self.client.on_response(self.client.tx_cobid, r, 0.0)


def _client_with_peer():
    SdoClient = sx.mod("canopen.sdo.client").SdoClient
    peer = _Peer()
    client = SdoClient(0x602, 0x582, C.odmod().ObjectDictionary())
    client.network = peer
    peer.client = client
    return client, peer


def write_step(nb, sized):
    client, peer = _client_with_peer()
    WS = sx.mod("canopen.sdo.client").WritableStream
    E = _exc()
    peer.script = ([0x60, 0x00, 0x20, 0x00, 0, 0, 0, 0],)
    ws = WS(client, 0x2000, 0, None, True)
    if not all(hasattr(ws, a) for a in ("size", "pos", "_toggle", "_exp_header", "_done", "sdo_client")):
        for m in ("step-ok", "step-rejected"):
            sx.not_applicable(m, "WritableStream no longer keeps size/pos/_toggle/_exp_header/_done")
        return
    if sized:
        size = sx.fresh_int("size", 0, 0xFFFFFFFF)
        pos = sx.fresh_int("pos", 0, 0xFFFFFFFF)
        sx.assume(pos < size)
    else:
        size = None
        pos = sx.fresh_int("pos", 0, 0xFFFFFFFF)
    tog = sx.ite(sx.fresh_bool("tog"), 0x10, 0)
    ws.size, ws.pos, ws._toggle, ws._exp_header, ws._done = size, pos, tog, None, False
    b = sx.fresh_bytes("b", nb)
    tag = "C01/write-step"
    try:
        k = ws.write(b)
    except (E.SdoAbortedError, E.SdoCommunicationError) as e:
        r = sx.items(peer.replies[-1])
        sx.observe("exc", C.exc_name(e))
        if isinstance(e, E.SdoAbortedError):
            sx.prove(r[0] == 0x80, "abort raised without abort frame", tag + "/abort")
        else:
            sx.prove((r[0] != 0x80) & ((r[0] & 0xE0) != 0x20), "valid acknowledge rejected", tag + "/rejected")
        sx.reach("step-rejected")
        k = None
    exp_k = min(nb, 7)
    sx.prove(len(peer.sent) >= 1, "a segment was sent", tag + "/sent")
    f = sx.items(peer.sent[0][1])
    sx.observe("frame", peer.sent[0][1])
    last = (pos + exp_k >= size) if sized else False
    cmd = tog | ((7 - exp_k) << 1) | sx.ite(last, 1, 0) if sized else tog | ((7 - exp_k) << 1)
    sx.prove(len(f) == 8, "segment frame is 8 bytes", tag + "/frame-length")
    sx.prove(f[0] == cmd, "command byte: toggle, unused count, last flag", tag + "/command")
    bi = sx.items(b)
    sx.prove(sx.all_([f[1 + i] == bi[i] for i in range(exp_k)]), "segment data", tag + "/data")
    sx.prove(sx.all_([f[1 + i] == 0 for i in range(exp_k, 7)]), "padding zero", tag + "/padding")
    if k is not None:
        r = sx.items(peer.replies[0])
        sx.prove((r[0] & 0xE0) == 0x20, "non-acknowledge accepted", tag + "/accepted")
        sx.prove(k == exp_k, "returns the number of bytes sent", tag + "/count")
        sx.prove(ws.pos == pos + exp_k, "position advances", tag + "/pos")
        sx.prove(ws._toggle == (tog ^ 0x10), "toggle alternates", tag + "/toggle")
        sx.prove(sx.ite_bool(last, ws._done is True or ws._done == True, True), "done after the last segment",
                 tag + "/done") if sized else None
        sx.reach("step-ok")


def read_step():
    client, peer = _client_with_peer()
    RS = sx.mod("canopen.sdo.client").ReadableStream
    E = _exc()
    peer.script = ([0x40, 0x00, 0x20, 0x00, 0, 0, 0, 0],)
    rs = RS(client, 0x2000, 0)
    if not all(hasattr(rs, a) for a in ("size", "pos", "_toggle", "exp_data", "_done", "sdo_client")):
        for m in ("read-step-ok", "read-step-rejected"):
            sx.not_applicable(m, "ReadableStream no longer keeps size/pos/_toggle/exp_data/_done")
        return
    tog = sx.ite(sx.fresh_bool("tog"), 0x10, 0)
    pos = sx.fresh_int("pos", 0, 0xFFFFFFFF)
    rs._done, rs._toggle, rs.pos, rs.exp_data, rs.size = False, tog, pos, None, None
    tag = "C01/read-step"
    try:
        d = rs.read(7)
    except (E.SdoAbortedError, E.SdoCommunicationError) as e:
        r = sx.items(peer.replies[-1])
        if isinstance(e, E.SdoAbortedError):
            sx.prove(r[0] == 0x80, "abort raised without abort frame", tag + "/abort")
        else:
            sx.prove((r[0] != 0x80) & (((r[0] & 0xE0) != 0) | ((r[0] & 0x10) != tog)),
                     "valid segment rejected", tag + "/rejected")
        sx.reach("read-step-rejected")
        d = None
    f = sx.items(peer.sent[0][1])
    sx.observe("frame", peer.sent[0][1])
    sx.prove(len(f) == 8 and sx.all_([f[0] == (0x60 | tog)] + [b == 0 for b in f[1:]]) if len(f) == 8 else False,
             "upload segment request", tag + "/request")
    if d is not None:
        r = sx.items(peer.replies[0])
        sx.prove(((r[0] & 0xE0) == 0) & ((r[0] & 0x10) == tog), "bad segment accepted", tag + "/accepted")
        n = (r[0] >> 1) & 7
        di = sx.items(d)
        sx.observe("data", d)
        sx.prove(len(di) == 7 - n, "segment length is 7-n", tag + "/length")
        sx.prove(sx.all_([di[i] == r[1 + i] for i in range(min(len(di), 7))]), "segment bytes", tag + "/bytes")
        sx.prove(rs._done == ((r[0] & 1) == 1), "done exactly on the last-segment flag", tag + "/done")
        sx.prove(rs._toggle == (tog ^ 0x10), "toggle alternates", tag + "/toggle")
        sx.reach("read-step-ok")


def init_upload_step():
    """ReadableStream.__init__ against an arbitrary response frame"""
    client, peer = _client_with_peer()
    RS = sx.mod("canopen.sdo.client").ReadableStream
    E = _exc()
    idx = sx.fresh_int("idx", 0, 0xFFFF)
    sub = sx.fresh_int("sub", 0, 0xFF)
    tag = "C01/init-upload-step"
    try:
        rs = RS(client, idx, sub)
    except (E.SdoAbortedError, E.SdoCommunicationError) as e:
        r = sx.items(peer.replies[-1])
        ok_resp = ((r[0] & 0xE0) == 0x40) & ((r[1] | (r[2] << 8)) == idx) & (r[3] == sub)
        sx.prove(sx.not_(ok_resp), "valid initiate response rejected", tag + "/rejected")
        sx.reach("init-rejected")
        return
    f = sx.items(peer.sent[0][1])
    sx.observe("frame", peer.sent[0][1])
    sx.prove(len(f) == 8 and sx.all_([f[0] == 0x40, f[1] == (idx & 0xFF), f[2] == (idx >> 8), f[3] == sub] +
                                     [b == 0 for b in f[4:]]) if len(f) == 8 else False,
             "initiate upload request", tag + "/request")
    r = sx.items(peer.replies[0])
    sx.prove(((r[0] & 0xE0) == 0x40) & ((r[1] | (r[2] << 8)) == idx) & (r[3] == sub), "bad response accepted",
             tag + "/accepted")
    e, s, n = (r[0] >> 1) & 1, r[0] & 1, (r[0] >> 2) & 3
    if rs.exp_data is not None:
        sx.prove(e == 1, "expedited data without e bit", tag + "/e-bit")
        d = sx.items(rs.exp_data)
        sx.observe("exp", rs.exp_data)
        # s=1: 4-n bytes, size announced; s=0: 4 bytes, size unknown
        sx.prove(sx.ite_bool(s == 1, len(d) == 4 - n, len(d) == 4) if sx.is_symbolic(n) or sx.is_symbolic(s)
                 else (len(d) == (4 - n if s == 1 else 4)), "expedited length", tag + "/exp-length")
        sx.prove(sx.all_([d[i] == r[4 + i] for i in range(len(d))]), "expedited bytes", tag + "/exp-bytes")
        if rs.size is None:
            sx.prove(s == 0, "size dropped", tag + "/exp-size")
        else:
            sx.prove((s == 1) & (rs.size == 4 - n), "expedited size", tag + "/exp-size")
        sx.reach("init-expedited")
    else:
        sx.prove(e == 0, "expedited response treated as segmented", tag + "/e-bit")
        if rs.size is None:
            sx.prove(s == 0, "announced size dropped", tag + "/seg-size")
        else:
            sx.prove((s == 1) & (rs.size == (r[4] | (r[5] << 8) | (r[6] << 16) | (r[7] << 24))),
                     "segmented size", tag + "/seg-size")
        sx.reach("init-segmented")


def init_download_step(sized, force):
    """WritableStream.__init__ for every size: expedited header vs segmented initiate"""
    client, peer = _client_with_peer()
    WS = sx.mod("canopen.sdo.client").WritableStream
    E = _exc()
    idx = sx.fresh_int("idx", 0, 0xFFFF)
    sub = sx.fresh_int("sub", 0, 0xFF)
    size = sx.fresh_int("size", 0, 0xFFFFFFFF) if sized else None
    tag = "C01/init-download-step"
    try:
        ws = WS(client, idx, sub, size, force)
    except (E.SdoAbortedError, E.SdoCommunicationError):
        r = sx.items(peer.replies[-1])
        sx.prove(r[0] != 0x60, "valid initiate acknowledge rejected", tag + "/rejected")
        sx.reach("initdl-rejected")
        return
    expedited = sized and not force and bool((size >= 1) & (size <= 4))
    if expedited:
        sx.prove(len(peer.sent) == 0, "expedited initiate must wait for the data", tag + "/early-frame")
        data = sx.fresh_bytes("d", sx.concretize(size))
        try:
            k = ws.write(data)
        except (E.SdoAbortedError, E.SdoCommunicationError):
            r = sx.items(peer.replies[-1])
            sx.prove((r[0] & 0xE0) != 0x60, "valid expedited acknowledge rejected", tag + "/rejected")
            return
        f = sx.items(peer.sent[0][1])
        sx.observe("frame", peer.sent[0][1])
        di = sx.items(data)
        nn = 4 - len(di)
        sx.prove(len(f) == 8 and sx.all_([f[0] == (0x23 | (nn << 2)), f[1] == (idx & 0xFF), f[2] == (idx >> 8),
                                          f[3] == sub] + [f[4 + i] == di[i] for i in range(len(di))] +
                                         [f[4 + i] == 0 for i in range(len(di), 4)]) if len(f) == 8 else False,
                 "expedited download frame", tag + "/expedited-frame")
        sx.reach("initdl-expedited")
    else:
        f = sx.items(peer.sent[0][1])
        sx.observe("frame", peer.sent[0][1])
        if sized:
            exp = [0x21, idx & 0xFF, idx >> 8, sub] + [sx.byte_of(size, i) for i in range(4)]
        else:
            exp = [0x20, idx & 0xFF, idx >> 8, sub, 0, 0, 0, 0]
        sx.prove(len(f) == 8 and sx.all_([a == b for a, b in zip(f, exp)]) if len(f) == 8 else False,
                 "segmented initiate frame", tag + "/segmented-frame")
        sx.prove(ws._toggle == 0 and ws.pos == 0, "toggle starts at 0", tag + "/initial-state")
        sx.reach("initdl-segmented")


# ---- jobs -------------------------------------------------------------------------------------------
def jobs(tier):
    out = []
    q = tier == "quick"
    lens = list(range(0, 17)) + [20, 21, 22, 27, 28, 29, 35, 64] if q else list(range(0, 101)) + [888, 889, 890, 1000, 5000, 10000]
    allchunk_max = 10 if q else 14
    for n in lens:
        for mode in ("api", "api_force"):
            out.append(dict(func="download", params=dict(n=n, mode=mode), weight=n + 1))
        for mode in ("raw_size", "raw_nosize", "raw_force"):
            if n <= allchunk_max:
                out.append(dict(func="download", params=dict(n=n, mode=mode, chunking="all"), weight=2 ** n))
            else:
                for ch in ("1", "3", "7", "8", "9"):
                    if n > 100 and ch in ("1", "3"):
                        continue
                    if n > 1000 and ch != "7":
                        continue
                    out.append(dict(func="download", params=dict(n=n, mode=mode, chunking=ch), weight=n))
        for kind in ("bufc", "bufp"):
            for sized in ("size", "nosize"):
                for ch in (("all",) if n <= 6 else ("5", "7", "9", "buf3")):
                    if n > 100 and ch in ("buf3",):
                        continue
                    if n > 1000 and ch != "9":
                        continue
                    out.append(dict(func="download", params=dict(n=n, mode="%s_%s" % (kind, sized), chunking=ch),
                                    weight=n + 2 ** min(n, 6)))
        if n <= (16 if q else 64):
            for tb in ("-1", "1", "7"):
                for sized in ("size", "nosize"):
                    if tb == "1" and sized == "size" and 1 <= n <= 4:
                        continue    # a line flush would feed an expedited stream less than `size` bytes (outside)
                    if tb == "1" and n > 12:
                        continue    # line buffering forks on every character: longer texts use fixed newline places
                    for ch in (("all",) if n <= (5 if q else 7) else ("4", "9")):
                        out.append(dict(func="download", params=dict(n=n, mode="text%s_%s" % (tb, sized), chunking=ch),
                                        weight=n + 2 ** min(n, 7)))
        if n in (13, 16, 29, 35, 64, 100) or (not q and 12 < n <= 100 and n % 5 == 0):
            for sized in ("size", "nosize"):
                out.append(dict(func="download", params=dict(n=n, mode="textnl_%s" % sized, chunking="9"), weight=n))
        if n <= (5 if q else 8):
            for sized in (("nosize",) if 1 <= n <= 4 else ("size", "nosize")):
                out.append(dict(func="download", params=dict(n=n, mode="bufn_%s" % sized, chunking="all"),
                                weight=4 ** n))
    # back-to-back histories: every pair of length classes
    classes = [0, 1, 4, 5, 7, 8, 15]
    for n in classes:
        for n2 in classes:
            out.append(dict(func="download", params=dict(n=n, mode="api", chunking="7", n2=n2, mode2="api")))
    out.append(dict(func="download", params=dict(n=9, mode="raw_nosize", chunking="7", n2=3, mode2="api")))
    out.append(dict(func="download", params=dict(n=3, mode="api", chunking="7", n2=9, mode2="raw_nosize")))

    for order in ("du", "ud", "dud", "udu", "ddu", "uud"):
        for n1, n2 in ((9, 9), (15, 3), (3, 15), (8, 22), (0, 8), (30, 30)) if q else [(a, b) for a in (0, 3, 8, 9, 15, 30)
                                                                                   for b in (0, 3, 8, 9, 15, 30)]:
            out.append(dict(func="mixed", params=dict(order=order, n1=n1, n2=n2)))
    for k in (1, 2, 3):
        for n in (4, 9):
            out.append(dict(func="stale_queue", params=dict(k=k, n=n)))
    for direction in ("download", "upload"):
        for lost in (0, 1, 2, 3):
            out.append(dict(func="lost_request", params=dict(direction=direction, n=16, lost=lost, retries=2)))
        out.append(dict(func="lost_request", params=dict(direction=direction, n=16, lost=1, retries=3)))
    for w1, w2 in ((None, 1), (1, 2), (4, 2), (2, None), (None, 4), (8, 1)):
        out.append(dict(func="upload_redeclared", params=dict(w1=w1, w2=w2)))
    # uploads
    ulens = list(range(0, 17)) + [20, 21, 22, 28, 64] if q else list(range(0, 101)) + [889, 1000, 5000, 10000]
    for n in ulens:
        styles = []
        if 1 <= n <= 4:
            styles.append(("exp-size", "full"))
        if n == 4:
            styles.append(("exp-nosize", "full"))
        styles += [("seg-size", "full"), ("seg-nosize", "full")]
        if n > 0:
            styles += [("seg-size", "empty"), ("seg-nosize", "empty")]
        for style, last in styles:
            for how in ("api", "raw7", "rawall", "readinto", "buf:c:1024:all", "buf:c:7:3", "buf:c:8:20",
                        "buf:pyio:16:5", "text:-1:all", "text:7:3", "text:1:all", "text:8:20", "text:1024:lines"):
                if n > 100 and how not in ("api", "rawall"):
                    continue
                if n > 64 and how.startswith("text"):
                    continue
                out.append(dict(func="upload", params=dict(n=n, style=style, last=last, odkind="none", how=how),
                                weight=n + 1))
            for odkind in ("num1", "num2", "num3", "num4", "num8", "bool", "real4", "real8", "arr2", "rec4", "str", "dom"):
                if n > 12 and odkind not in ("str", "dom"):
                    continue
                out.append(dict(func="upload", params=dict(n=n, style=style, last=last, odkind=odkind, how="api"),
                                weight=n + 1))
        if n in (1, 5, 8, 15):
            out.append(dict(func="upload", params=dict(n=n, style="seg-size", last="full", odkind="none", how="api",
                                                       second=True)))
            for sl in (1, 3):
                out.append(dict(func="upload", params=dict(n=n, style="seg-nosize", last="full", odkind="none",
                                                           how="rawall", seg_len=sl)))
    # buffered reader whose free space is smaller than one segment (buffer below 7 bytes, or a nearly full larger
    # buffer): was a defect (ValueError), fixed in 7135432
    for n in (5, 9, 50):
        for how in ("buf:c:4:3", "buf:c:2:1", "buf:c:16:15", "buf:c:6:20", "buf:c:100:99"):
            out.append(dict(func="upload", params=dict(n=n, style="seg-size", last="full", odkind="none", how=how)))
    out.append(dict(func="upload", params=dict(n=2100, style="seg-size", last="full", odkind="none",
                                               how="buf:c:1024:1023"), weight=2100))
    if not q:
        for b in (2, 3, 5, 6, 7, 8, 13, 14, 15, 16, 64):
            for c in (1, b - 1, b, b + 1, 2 * b + 3):
                if c >= 1:
                    for style in ("seg-size", "seg-nosize"):
                        out.append(dict(func="upload", params=dict(n=200, style=style, last="empty", odkind="none",
                                                                   how="buf:c:%d:%d" % (b, c)), weight=200))
    # inductive steps
    for nb in range(0, 10):
        for sized in (True, False):
            out.append(dict(func="write_step", params=dict(nb=nb, sized=sized)))
    out.append(dict(func="read_step", params={}))
    out.append(dict(func="init_upload_step", params={}))
    for sized in (True, False):
        for force in (True, False):
            out.append(dict(func="init_download_step", params=dict(sized=sized, force=force)))
    return out


META = dict(
    level_text="Bounded symbolic execution of the real SdoClient (upload, download, open, request_response, "
               "read_response, ReadableStream, WritableStream) against an independent CiA 301 reference server that "
               "checks every request frame: index/sub-index and all payload bytes symbolic, lengths concrete per job, "
               "caller chunkings as symbolic split points, buffered wrappers through exact models of the C and _pyio "
               "BufferedWriter/Reader plus a nondeterministic chunker; inductive steps of WritableStream.write / "
               "ReadableStream.read / both __init__ from symbolic stream state against an arbitrary response frame "
               "(no length bound below 2^32).",
    level_note="Trusted: z3; queue/io/struct models (every explored path sampled for a native re-run on the real io, "
               "struct and queue-with-hook). Text mode uses a model of io.TextIOWrapper (ASCII, default newline handling, "
               "line buffering), validated by the native replay of every sampled path.",
    bounds=dict(quick="download lengths 0..16,20,21,22,27,28,29,35,64; all caller chunkings (chunks 1..9) for n<=8, fixed "
                      "chunk sizes 1,3,7,8,9 above; buffered writers (C, _pyio exact; nondeterministic for n<=5); "
                      "back-to-back pairs over 7 length classes; upload lengths 0..16,20,21,22,28,64 x all legal "
                      "response styles x 8 reading modes x 8 OD variants; steps: write len 0..9, symbolic size/pos/toggle",
                thorough="every length 0..100 plus 888..890, 1000, 5000, 10000; all chunkings for n<=14; nondeterministic "
                         "buffer n<=8"),
    outside_bounds=["text mode with encodings other than ASCII, with CR bytes on upload (universal-newline translation is by design) or beyond the 8192-byte text chunk size", "a caller that lies about size", "an expedited raw stream fed less than size bytes per "
                    "write()", "a raw caller ignoring write()'s return value", "payloads > 10000 bytes end-to-end (covered "
                    "by the step harness)", "a server that sends empty non-final upload segments (n = 7, c = 0; the reference server sends 1..7 bytes per segment)"],
    assumptions=["reference server written from CiA 301 7.2.4.3", "responses delivered inside send_message (deferred "
                 "delivery is exercised in C03/C07)"],
    stubs=["struct", "queue (delivery hook)", "time", "io.RawIOBase/BufferedWriter/BufferedReader models", "logging",
           "Network replaced by the rig"],
    required_reach=["mixed", "stale-queue", "lost-request", "redeclared", "download-api", "download-raw", "download-bufc", "download-bufp", "download-bufn", "back-to-back",
                    "upload-api", "upload-raw7", "upload-rawall", "upload-readinto", "truncated", "style-exp-size",
                    "style-exp-nosize", "style-seg-size", "style-seg-nosize", "upload-back-to-back", "step-ok",
                    "step-rejected", "read-step-ok", "read-step-rejected", "init-expedited", "init-segmented",
                    "init-rejected", "initdl-expedited", "initdl-segmented", "initdl-rejected"],
    limits=dict(quick=dict(max_decisions=20000), thorough=dict(max_decisions=50000, job_timeout_s=3000)),
    validate_every=dict(quick=9, thorough=40),
    max_validate=dict(quick=40, thorough=60),
)
