"""C10 - Frames reach exactly the handlers subscribed at that moment."""
import itertools

from symx import api as sx
from harness import common as C

CLAIMED = True

ID_MAX = 0x1FFFFFFF
SERVICE_CODES = (0x80, 0x180, 0x280, 0x380, 0x480, 0x580, 0x700)   # predefined connection set (CiA 301)


def _net():
    net = sx.mod("canopen.network").Network()
    net.subscribers = sx.new_dict()
    return net


class _Cbs:
    """callbacks are *bound methods*, created afresh on every access like the library's own handlers
    (obj.m == obj.m but obj.m is not obj.m)"""

    def __init__(self, log):
        self.log = log

    def __getitem__(self, i):
        return getattr(self.log, "cb%d" % i)


class Log:
    def __init__(self):
        self.calls = []
        self.cbs = _Cbs(self)

    def cb0(self, can_id, data, timestamp):
        self.calls.append((0, can_id, data, timestamp))

    def cb1(self, can_id, data, timestamp):
        self.calls.append((1, can_id, data, timestamp))

    def cb2(self, can_id, data, timestamp):
        self.calls.append((2, can_id, data, timestamp))


# all duplicate-free callback lists over 3 callbacks (including the empty list)
CB_LISTS = [list(p) for r in range(0, 4) for p in itertools.permutations(range(3), r)]


class RefMap:
    """reference ordered multimap keyed by (possibly symbolic) CAN ids"""

    def __init__(self):
        self.keys = []
        self.lists = []

    def find(self, k):
        for i, kk in enumerate(self.keys):
            if kk == k:          # decided by the solver under the current path condition
                return i
        return -1

    def get(self, k):
        i = self.find(k)
        return [] if i < 0 else self.lists[i]

    def subscribe(self, k, cb):
        i = self.find(k)
        if i < 0:
            self.keys.append(k)
            self.lists.append([cb])
        elif cb not in self.lists[i]:
            self.lists[i].append(cb)

    def unsubscribe(self, k, cb=None):
        """returns False if there was nothing to remove"""
        i = self.find(k)
        if i < 0:
            return False
        if cb is None:
            del self.keys[i]
            del self.lists[i]
            return True
        if cb not in self.lists[i]:
            return False
        self.lists[i].remove(cb)
        return True


def _same_state(net, ref, probe_keys, tag):
    """observational equality: for every key of interest the callback list is the reference's"""
    for k in probe_keys:
        have = net.subscribers.get(k) or []
        want = ref.get(k)
        sx.prove(len(have) == len(want) and all(a == b for a, b in zip(have, want)),
                 "subscribed callbacks differ from the reference", tag + "/state")
    # no extra non-empty entries
    n_have = sum(1 for k in net.subscribers.keys() if net.subscribers[k])
    n_want = sum(1 for l in ref.lists if l)
    sx.prove(n_have == n_want, "number of subscribed ids differs from the reference", tag + "/state-count")


def _apply(net, ref, log, op, tag, i=0):
    cid = sx.fresh_int("id%d" % i, 0, ID_MAX)
    fixed = None
    if ":" in op:                                   # "subscribe:1": the callback is given, only the id is symbolic
        op, fixed = op.split(":")[0], int(op.split(":")[1])
    if op == "subscribe":
        c = sx.choice(3, "cb%d" % i) if fixed is None else fixed
        net.subscribe(cid, log.cbs[c])
        ref.subscribe(cid, log.cbs[c])
        sx.reach("op-subscribe")
    elif op in ("unsubscribe_cb", "unsubscribe_all"):
        c = (sx.choice(3, "cb%d" % i) if fixed is None else fixed) if op == "unsubscribe_cb" else None
        snapshot = [(k, list(l)) for k, l in zip(ref.keys, ref.lists)]
        try:
            if c is None:
                net.unsubscribe(cid)
            else:
                net.unsubscribe(cid, log.cbs[c])
        except Exception as e:
            sx.observe("exc", C.exc_name(e))
            ok = ref.unsubscribe(cid, None if c is None else log.cbs[c])
            sx.prove(not ok, "unsubscribing a subscribed callback raised", tag + "/unsubscribe-raised")
            ref.keys = [k for k, l in snapshot]
            ref.lists = [l for k, l in snapshot]
            sx.reach("op-unsubscribe-missing")
        else:
            ok = ref.unsubscribe(cid, None if c is None else log.cbs[c])
            sx.prove(ok, "unsubscribing what is not subscribed did not raise", tag + "/unsubscribe-silent")
            sx.reach("op-unsubscribe")
    elif op == "notify":
        data = sx.fresh_bytes("data%d" % i, 8)
        ts = sx.fresh_int("ts%d" % i, 0, 1 << 40)
        n0 = len(log.calls)
        net.notify(cid, data, ts)
        new = log.calls[n0:]
        want = ref.get(cid)
        sx.observe("calls", [c[0] for c in new])
        sx.prove(len(new) == len(want) and all(log.cbs[c[0]] == w for c, w in zip(new, want)),
                 "exactly the subscribed callbacks, once each, in subscription order", tag + "/dispatch")
        sx.prove(sx.all_([(c[1] == cid) & sx.eq_bytes(c[2], data) & (c[3] == ts) for c in new]),
                 "callbacks get the frame's id, data and timestamp", tag + "/arguments")
        sx.reach("op-notify")
    return cid


OPS = ["subscribe", "unsubscribe_cb", "unsubscribe_all", "notify"]


def step(op, nkeys):
    """one operation from an arbitrary subscriber table with `nkeys` symbolic ids"""
    net = _net()
    log = Log()
    ref = RefMap()
    keys = []
    for j in range(nkeys):
        k = sx.fresh_int("key%d" % j, 0, ID_MAX)
        for kk in keys:
            sx.assume(k != kk)
        keys.append(k)
        lst = [log.cbs[c] for c in CB_LISTS[sx.choice(len(CB_LISTS), "list%d" % j)]]
        net.subscribers[k] = list(lst)
        ref.keys.append(k)
        ref.lists.append(list(lst))
    cid = _apply(net, ref, log, op, "C10/step")
    _same_state(net, ref, keys + [cid], "C10/step")
    sx.reach("step")


def history(k, first):
    net = _net()
    log = Log()
    ref = RefMap()
    ids = []
    for i in range(k):
        op = first if i == 0 else OPS[sx.choice(len(OPS), "op%d" % i)]
        ids.append(_apply(net, ref, log, op, "C10/history", i))
        _same_state(net, ref, ids, "C10/history")
    sx.reach("history")


def scripted_history(ops):
    """longer histories than the exhaustive ones: the operations are fixed, ids (which of them coincide) and callbacks
    stay symbolic - e.g. a callback removed by the one-callback form (an empty list stays behind), traffic on that id
    while nobody listens, a new subscription, traffic again"""
    net = _net()
    log = Log()
    ref = RefMap()
    ids = []
    for i, op in enumerate(ops):
        ids.append(_apply(net, ref, log, op, "C10/scripted", i))
        _same_state(net, ref, ids, "C10/scripted")
    sx.reach("scripted-history")


# ---- nodes ---------------------------------------------------------------------------------------
def _node_od():
    return C.typed_od(with_pdo=False, extra=[C.mkvar("hb", 0x1017, 0, C.U16, "rw", default=0)])


def _mknode(kind, nid):
    if kind == "remote":
        return sx.mod("canopen.node.remote").RemoteNode(nid, _node_od())
    return sx.mod("canopen.node.local").LocalNode(nid, _node_od())


def node_replace(old_kind, action, nid, extra=0, twice=0, appunsub=0):
    """after a node is removed or replaced none of the old node's handlers sees another frame
    (extra: the remote node has an additional SDO channel, added before (1) or after (2) it joined the
    network; twice: the node was associated with the network twice)"""
    net = sx.mod("canopen.network").Network()
    sent = []
    net.send_message = lambda cid, data, remote=False: sent.append((cid, data))
    old = _mknode(old_kind, nid)
    # the application listens on the node's ids as well (boot-up monitor, logger): these subscriptions are its own
    user = []
    user_ids = [0x700 + nid, 0x80 + nid, 0x580 + nid, 0]

    class _User:
        def __init__(self, cid):
            self.cid = cid

        def __call__(self, can_id, data, ts):
            user.append((self.cid, ts))
    user_cbs = [_User(cid) for cid in user_ids]
    if action != "same":
        for cb in user_cbs[:2]:
            net.subscribe(cb.cid, cb)              # before the node joins
    chan = None
    if extra == 1 and old_kind == "remote":
        chan = old.add_sdo(0x640 + nid, 0x5C0 + nid)
    net.add_node(old)
    if extra == 2 and old_kind == "remote":
        chan = old.add_sdo(0x640 + nid, 0x5C0 + nid)
    if twice:
        old.associate_network(net)
    if action != "same":
        for cb in user_cbs[2:]:
            net.subscribe(cb.cid, cb)              # after the node joined
    new = None
    if action == "same":
        # the very same node object is added again (add_node twice / net[i] = net[i]): it must stay connected
        if sx.choice(2, "via_setitem"):
            net[nid] = old
        else:
            net.add_node(old) if old_kind == "remote" else net.create_node(old)
        n0 = len(sent)
        try:
            net.notify(0x580 + nid, sx.fresh_bytes("sdo", 8), 1.0)
            net.notify(0x80 + nid, sx.fresh_bytes("emcy", 8), 3.0)
            net.notify(0x600 + nid, sx.mkbytes([0x40, 0x00, 0x10, 0, 0, 0, 0, 0]), 5.0)
        except Exception as e:
            sx.fail("re-added node raised %s" % C.exc_name(e), "C10/node/%s-same/raises" % old_kind)
            return
        if old_kind == "remote":
            sx.prove(not old.sdo.responses.empty() and len(old.emcy.log) == 1,
                     "a node added twice no longer receives its frames", "C10/node/remote-same/receives")
        else:
            sx.prove(any(c == 0x580 + nid for c, d in sent[n0:]), "a local node added twice no longer answers",
                     "C10/node/local-same/receives")
        sx.prove(old.has_network(), "a node added twice lost its network", "C10/node/%s-same/network" % old_kind)
        sx.reach("node-same")
        return
    tag = "C10/node/%s-%s" % (old_kind, action)
    if appunsub:
        # the application has already taken one of the node's own handlers off the network itself; a removal that
        # goes through after that (it may also be refused: then nothing is demanded) still detaches all the others
        if old_kind == "remote":
            net.unsubscribe(0x580 + nid, old.sdo.on_response)
        else:
            net.unsubscribe(0x600 + nid, old.sdo.on_request)
        tag += "/app-unsubscribed"
    try:
        if action == "delete":
            del net[nid]
        else:
            new = _mknode(action, nid)
            net.add_node(new)
    except Exception as e:
        if not appunsub:
            raise
        sx.observe("removal_exc", C.exc_name(e))
        sx.reach("node-removal-refused")
        return
    old_state = old.nmt._state
    try:
        net.notify(0x580 + nid, sx.fresh_bytes("sdo", 8), 1.0)
        net.notify(0x700 + nid, sx.fresh_bytes("hb", 1), 2.0)
        net.notify(0x80 + nid, sx.fresh_bytes("emcy", 8), 3.0)
        net.notify(0, sx.mkbytes([sx.fresh_byte("cs"), nid]), 4.0)
        net.notify(0x600 + nid, sx.mkbytes([0x40, 0x00, 0x10, 0, 0, 0, 0, 0]), 5.0)
        if chan is not None:
            net.notify(0x5C0 + nid, sx.fresh_bytes("sdo2", 8), 6.0)
    except Exception as e:
        sx.observe("exc", C.exc_name(e))
        sx.fail("a handler of the removed node was still called (%s)" % C.exc_name(e), tag + "/stale-handler")
        return
    # the application's own subscriptions on those ids are untouched: one call each for the frames above
    for cid, ts in ((0x580 + nid, 1.0), (0x700 + nid, 2.0), (0x80 + nid, 3.0), (0, 4.0)):
        sx.prove(len([1 for c, t in user if c == cid and t == ts]) == 1,
                 "removing a node disturbed the application's own subscription on one of its ids", tag + "/user-callback")
    if chan is not None:
        sx.prove(chan.responses.empty(), "old node's additional SDO channel still receives", tag + "/old-sdo-channel")
        sx.reach("node-extra-channel")
    if old_kind == "remote":
        sx.prove(old.sdo.responses.empty(), "old node's SDO client still receives", tag + "/old-sdo")
        sx.prove(len(old.emcy.log) == 0, "old node's EMCY consumer still receives", tag + "/old-emcy")
    sx.prove(old.nmt._state == old_state, "old node's NMT handler still receives", tag + "/old-nmt")
    if new is not None:
        if action == "remote":
            sx.prove(not new.sdo.responses.empty() and len(new.emcy.log) == 1, "new node does not receive",
                     tag + "/new-receives")
        else:
            sx.prove(any(c == 0x580 + nid for c, d in sent), "new local node does not answer", tag + "/new-receives")
    else:
        sx.prove(len(sent) == 0, "a deleted node still answers", tag + "/deleted-answers")
    # the removed node object lives on: what is done with it later must not hook it into the network it left
    if old_kind == "remote":
        try:
            late = old.add_sdo(0x6F0, 0x5F0)
            net.notify(0x5F0, sx.fresh_bytes("late", 8), 7.0)
            sx.prove(late.responses.empty(), "an SDO channel added to a removed node receives frames of the network "
                     "it left", tag + "/late-channel")
        except Exception as e:
            sx.observe("exc", C.exc_name(e))
            sx.fail("adding a channel to a removed node raised %s" % C.exc_name(e), tag + "/late-channel-raises")
    sx.reach("node-" + action)


# ---- outgoing frames --------------------------------------------------------------------------------
def outgoing(n, periodic, modifiable=True):
    netmod = sx.mod("canopen.network")
    from symx.models import can_model
    bus = can_model.BusABC(modifiable=modifiable)
    net = netmod.Network(bus)
    cid = sx.fresh_int("id", 0, ID_MAX)
    data = sx.fresh_bytes("data", n)
    remote = bool(sx.choice(2, "remote"))
    if periodic:
        task = net.send_periodic(cid, data, 0.5, remote)
        msg = bus.tasks[0].msg
        sx.prove(bus.tasks[0].period == 0.5, "period handed to the bus", "C10/outgoing/period")
    else:
        net.send_message(cid, data, remote)
        msg = bus.sent[0]
    tag = "C10/outgoing/%s" % ("periodic" if periodic else "single")
    sx.observe("msg", [msg.arbitration_id, bool(msg.is_extended_id) if not sx.is_symbolic(msg.is_extended_id)
                       else msg.is_extended_id, msg.is_remote_frame])
    sx.prove(msg.arbitration_id == cid, "arbitration id", tag + "/id")
    sx.prove(msg.is_extended_id == (cid > 0x7FF), "extended format exactly for ids above 0x7FF", tag + "/extended")
    sx.prove(bool(msg.is_remote_frame) == remote, "remote flag", tag + "/remote")
    if not remote:
        sx.prove(sx.eq_bytes(sx.mkbytes(sx.items(msg.data)), data), "data", tag + "/data")
    if periodic and not remote:
        # the frame repeated after an update() still has the given id, format and flags, and the new data
        new = sx.fresh_bytes("new", n)
        task.update(new)
        live = bus.live_tasks()
        sx.prove(len(live) == 1, "exactly one cyclic task after update()", tag + "/update-tasks")
        if len(live) == 1:
            aid, ext, rtr, d = live[0].snapshot
            sx.observe("updated", [aid, ext, rtr, d])
            sx.prove(aid == cid, "arbitration id after update()", tag + "/update-id")
            sx.prove(ext == (cid > 0x7FF), "frame format after update()", tag + "/update-extended")
            sx.prove(bool(rtr) is False, "remote flag after update()", tag + "/update-remote")
            sx.prove(sx.eq_bytes(sx.mkbytes(sx.items(d)), new), "data after update()", tag + "/update-data")
        sx.reach("outgoing-update")
    sx.reach("outgoing")


def odd_callbacks():
    """callbacks are arbitrary callables: an object that is 'falsy' (a recorder derived from list that has recorded
    nothing yet, a counter at zero) is subscribed, notified and unsubscribed like any other; None alone means 'all'"""
    net = sx.mod("canopen.network").Network()

    class Recorder(list):
        def __call__(self, can_id, data, ts):
            self.append((can_id, ts))

    class Counter:
        n = 0

        def __call__(self, can_id, data, ts):
            self.n += 1

        def __bool__(self):
            return self.n > 0

        def __eq__(self, o):
            return self is o

        __hash__ = object.__hash__
    cid = sx.fresh_int("id", 0, 0x7FF)
    rec, cnt, plain = Recorder(), Counter(), []
    net.subscribe(cid, rec)
    net.subscribe(cid, cnt)
    net.subscribe(cid, lambda c, d, t: plain.append(t))
    tag = "C10/odd-callbacks"
    which = sx.choice(2, "which")
    net.unsubscribe(cid, rec if which == 0 else cnt)          # removed while still 'falsy'
    net.notify(cid, b"\x01", 5.0)
    sx.prove(len(plain) == 1, "removing one (falsy) callback removed the others on that id", tag + "/others-removed")
    sx.prove((len(rec) == 0 and cnt.n == 1) if which == 0 else (len(rec) == 1 and cnt.n == 0),
             "exactly the named callback was removed", tag + "/removed")
    net.unsubscribe(cid)                                       # no callback given: all of them
    net.notify(cid, b"\x02", 6.0)
    sx.prove(len(plain) == 1, "unsubscribe without a callback removes every callback of the id", tag + "/all")
    sx.reach("odd-callbacks")


def concurrent_send(k, tag="C10/concurrent-send", preempt=0):
    """Network.send_message is documented as safe to call from several threads: k threads send one frame each
    (every schedule at lock granularity); the bus sees every frame exactly once, with its own id, data and flag."""
    netmod = sx.mod("canopen.network")
    from symx.models import can_model
    bus = can_model.BusABC()
    net = netmod.Network(bus)
    frames = []
    for i in range(k):
        cid = sx.fresh_int("id%d" % i, 0, ID_MAX)
        for c, _, _ in frames:
            sx.assume(cid != c)
        frames.append((cid, sx.fresh_bytes("data%d" % i, 8), bool(i % 2) and False))
    sched = sx.scheduler(preempt=preempt)
    for i in range(1, k):
        sched.spawn(lambda i=i: net.send_message(frames[i][0], frames[i][1]), "sender%d" % i)
    net.send_message(frames[0][0], frames[0][1])
    sched.join()
    sx.prove(len(bus.sent) == k, "one frame on the bus per call", tag + "/count")
    for cid, data, _ in frames:
        hits = [m for m in bus.sent if bool(m.arbitration_id == cid)]
        sx.prove(len(hits) == 1, "every caller's frame is sent exactly once", tag + "/once")
        if len(hits) == 1:
            sx.prove(sx.eq_bytes(sx.mkbytes(sx.items(hits[0].data)), data) & (hits[0].is_extended_id == (cid > 0x7FF)),
                     "frame carries its caller's data and format", tag + "/content")
    sx.reach("concurrent-send")


def listener():
    netmod = sx.mod("canopen.network")
    net = netmod.Network()
    got = []
    net.notify = lambda cid, data, ts: got.append((cid, data, ts))
    lst = netmod.MessageListener(net)
    err = bool(sx.choice(2, "err"))
    rtr = bool(sx.choice(2, "rtr"))
    cid = sx.fresh_int("id", 0, ID_MAX)
    data = sx.fresh_bytes("d", 8)
    ts = sx.fresh_int("ts", 0, 1 << 40)           # includes 0: "no timestamp" must not be special
    msg = netmod.can.Message(arbitration_id=cid, data=data if not rtr else None, is_error_frame=err,
                             is_remote_frame=rtr, timestamp=ts, is_extended_id=True)
    lst.on_message_received(msg)
    sx.prove(len(got) == (0 if (err or rtr) else 1), "error and remote frames are not dispatched", "C10/listener/filter")
    if got:
        sx.prove((got[0][0] == cid) & (got[0][2] == ts) & sx.eq_bytes(sx.mkbytes(sx.items(got[0][1])), data),
                 "dispatched with id, data, timestamp", "C10/listener/arguments")
    sx.reach("listener")


def scanner(k):
    net = sx.mod("canopen.network").Network()
    ref = []
    for i in range(k):
        cid = sx.fresh_int("id%d" % i, 0, ID_MAX)
        net.notify(cid, b"", 0.0)
        node = cid & 0x7F
        fc = cid - node
        is_service = sx.any_([fc == s for s in SERVICE_CODES])
        listed = sx.any_([node == r for r in ref])
        if (is_service & (node != 0) & sx.not_(listed)) if False else bool(is_service & (node != 0) & sx.not_(listed)):
            ref.append(node)
    got = list(net.scanner.nodes)
    sx.observe("nodes", got)
    sx.prove(len(got) == len(ref), "scanner lists each node once, only for predefined-connection-set ids",
             "C10/scanner/count")
    sx.prove(sx.all_([a == b for a, b in zip(got, ref)]) if len(got) == len(ref) else False,
             "scanner order of first appearance", "C10/scanner/order")
    net.scanner.reset()
    sx.prove(len(net.scanner.nodes) == 0, "reset clears", "C10/scanner/reset")
    # after reset() the scanner starts from scratch: the same frames are listed again, a further frame as well
    ref2 = []
    ids = [sx.fresh_int("again", 0, ID_MAX)] if k <= 2 else []      # (k = 3: the earlier nodes only)
    for cid in ids:
        net.notify(cid, b"", 0.0)
    for node in ref:
        net.notify(0x700 + node, b"\x05", 0.0)
    for cid in ids:
        node = cid & 0x7F
        fc = cid - node
        if bool(sx.any_([fc == s_ for s_ in SERVICE_CODES]) & (node != 0)):
            ref2.append(node)
    for node in ref:
        if not bool(sx.any_([node == r for r in ref2])):
            ref2.append(node)
    got2 = list(net.scanner.nodes)
    sx.observe("nodes2", got2)
    sx.prove(len(got2) == len(ref2) and sx.all_([a == b for a, b in zip(got2, ref2)]) is not False,
             "nodes seen before reset() are listed again afterwards", "C10/scanner/after-reset")
    if len(got2) == len(ref2):
        sx.prove(sx.all_([a == b for a, b in zip(got2, ref2)]), "order after reset()", "C10/scanner/after-reset-order")
    sx.reach("scanner")


def jobs(tier):
    out = []
    for op in OPS:
        for nk in (0, 1, 2):
            out.append(dict(func="step", params=dict(op=op, nkeys=nk), weight=16 ** nk))
    kmax = 3 if tier == "quick" else 4
    for k in range(1, kmax + 1):
        for first in OPS:
            out.append(dict(func="history", params=dict(k=k, first=first), weight=10 ** k))
    for ops in (["subscribe:0", "unsubscribe_cb:0", "notify", "subscribe:1", "notify"],
                ["subscribe:2", "unsubscribe_all", "notify", "subscribe:2", "notify"]):
        out.append(dict(func="scripted_history", params=dict(ops=ops), weight=5000))
    for old in ("remote", "local"):
        out.append(dict(func="node_replace", params=dict(old_kind=old, action="same", nid=4)))
        for action in ("delete", "remote", "local"):
            for nid in (1, 2, 127):
                out.append(dict(func="node_replace", params=dict(old_kind=old, action=action, nid=nid)))
            out.append(dict(func="node_replace", params=dict(old_kind=old, action=action, nid=5, twice=1)))
            out.append(dict(func="node_replace", params=dict(old_kind=old, action=action, nid=6, appunsub=1)))
            if old == "remote":
                for extra in (1, 2):
                    out.append(dict(func="node_replace", params=dict(old_kind=old, action=action, nid=3, extra=extra)))
    for n in range(0, 9):
        for periodic in (False, True):
            out.append(dict(func="outgoing", params=dict(n=n, periodic=periodic)))
            if periodic:
                out.append(dict(func="outgoing", params=dict(n=n, periodic=periodic, modifiable=False)))
    for k in (2, 3):
        out.append(dict(func="concurrent_send", params=dict(k=k), weight=3 ** k))
    # plus one preemption placed at any source line of canopen code (Network.send_message is documented as thread safe)
    out.append(dict(func="concurrent_send", params=dict(k=2, preempt=1), weight=100))
    if tier == "thorough":
        out.append(dict(func="concurrent_send", params=dict(k=3, preempt=1), weight=7000))
    out.append(dict(func="odd_callbacks", params={}))
    out.append(dict(func="listener", params={}))
    for k in (1, 2, 3):
        out.append(dict(func="scanner", params=dict(k=k), weight=10 ** k))
    return out


META = dict(
    level_text="Bounded symbolic execution of Network.subscribe/unsubscribe/notify/send_message/send_periodic, "
               "MessageListener, PeriodicMessageTask, node add/replace/remove and NodeScanner: an inductive step "
               "from an arbitrary subscriber table with symbolic 29-bit ids (aliasing between the operation's id and "
               "the stored ids is decided by the solver inside the dictionary lookup) against a reference ordered "
               "multimap; bounded histories from the empty network; symbolic ids, data and flags for outgoing frames; "
               "scanner sequences of symbolic ids.",
    level_note="Step invariant: keys pairwise distinct, callback lists duplicate-free (possibly empty, as "
               "unsubscribe(id, cb) leaves them). python-can is replaced by a recording model; what canopen hands to "
               "it is what is checked.",
    bounds=dict(quick="step: tables of 0..2 symbolic ids x all 16 duplicate-free callback lists over 3 callbacks x 4 "
                      "operations; histories k<=3; node replace/remove for ids 1, 2, 127 x {remote, local}; outgoing "
                      "data lengths 0..8 (periodic frames also after update(), on buses with and without modify_data); scanner "
                      "sequences of <=3 symbolic 29-bit ids",
                thorough="histories k<=4"),
    outside_bounds=["a callback that (un)subscribes during dispatch", "the real notifier thread",
                    "tables with more than 2 ids in the step (uniform code)"],
    assumptions=[],
    stubs=["can (recording model)", "dict displays -> SymDict", "threading.Lock", "queue", "logging"],
    required_reach=["scripted-history", "step", "op-subscribe", "op-unsubscribe", "op-unsubscribe-missing", "op-notify", "history",
                    "node-delete", "node-remote", "node-local", "node-extra-channel", "node-same", "outgoing", "outgoing-update", "concurrent-send", "odd-callbacks", "listener", "scanner"],
    limits=dict(quick=dict(max_decisions=20000), thorough=dict(max_decisions=20000, job_timeout_s=3000)),
    validate_every=dict(quick=11, thorough=101),
    max_validate=dict(quick=60, thorough=60),
)
