"""C18 - LSS fast scan finds the one unconfigured device's identity, bit for bit."""
import random

from symx import api as sx
from harness import common as C
from refmodels.lss_slave import LssSlave, CONFIGURATION, le32

CLAIMED = True

TX, RX = 0x7E5, 0x7E4


class Rig:
    def __init__(self, slave=None, reply=None):
        """reply: optional callable(frame) -> list of reply frames (replaces the slave)"""
        self.net = sx.mod("canopen.network").Network()
        self.sent = []
        self.slave = slave
        self.reply = reply
        self.net.send_message = self._send
        self.nrx = 0
        self.lss = self.net.lss

    def _send(self, can_id, data, remote=False):
        self.sent.append((can_id, data, remote))
        if self.reply is not None:
            resps = self.reply(data)
        elif self.slave is not None:
            resps = self.slave.on_frame(data)
        else:
            resps = []
        for r in resps:
            # the interface reuses its receive buffer once notify() has returned (see C03): a consumer that keeps
            # the frame for another thread must have copied it
            buf = sx.new_bytearray(sx.items(r))
            self.net.notify(RX, buf, 0.0)
            self.nrx += 1
            junk = sx.items(sx.fresh_bytes("rxbuf%d" % self.nrx, len(buf)))
            for i in range(len(buf)):
                buf[i] = junk[i]


def two_masters(k=2):
    """two networks (two buses) in one process, each with its LSS master and one slave in configuration state: both
    masters inquire the node id at the same time (two threads), the answers come back through a dispatcher thread in
    either order - each master returns the answer of the slave on *its* bus.  Default schedule plus up to k deviations at
    synchronisation points (delay-bounded scheduler)."""
    from symx.sched import SCondition
    LssError = sx.mod("canopen.lss").LssError
    ida, idb = sx.fresh_int("node_a", 1, 127), sx.fresh_int("node_b", 1, 127)
    sx.assume(ida != idb)
    nets = [sx.mod("canopen.network").Network() for _ in range(2)]
    sched = sx.scheduler(preempt=k, delay=True, lines=False)
    cond = SCondition(sched)
    parked = []
    state = dict(stop=False)

    def sender(k, nid):
        def send(can_id, data, remote=False):
            if bool(sx.items(data)[0] == 0x5E):                 # inquire node id -> the slave on this bus answers
                with cond:
                    parked.append((k, sx.mkbytes([0x5E, nid, 0, 0, 0, 0, 0, 0])))
                    cond.notify_all()
        return send
    nets[0].send_message = sender(0, ida)
    nets[1].send_message = sender(1, idb)

    def dispatcher():
        while True:
            with cond:
                while not parked and not state["stop"]:
                    cond.wait()
                if not parked:
                    return
                # the two buses are independent: either pending answer may arrive first
                k, frame = parked.pop(sx.choice(len(parked), "which_bus") if len(parked) > 1 else 0)
            nets[k].notify(RX, sx.new_bytearray(sx.items(frame)), 0.0)
    got = [None, None]

    def ask(k):
        try:
            got[k] = nets[k].lss.inquire_node_id()
        except LssError:
            got[k] = "error"
    sched.spawn(dispatcher, "dispatcher")
    sched.spawn(lambda: ask(1), "client1")
    ask(0)
    sched.wait_until(lambda: sched.done("client"))
    with cond:
        state["stop"] = True
        cond.notify_all()
    sched.join()
    sx.observe("got", got)
    sx.prove(got[0] != "error" and got[1] != "error", "an inquiry failed although both slaves answered", "C18/two-masters/failed")
    if got[0] != "error" and got[1] != "error":
        sx.prove((got[0] == ida) & (got[1] == idb), "a master returned the answer of the slave on the other bus",
                 "C18/two-masters/crossed")
    sx.reach("two-masters")


def _frame_ok(rig, expect, tag):
    """the last request is one 8-byte frame on 0x7E5 with exactly the expected bytes"""
    if not rig.sent:
        sx.fail("no request frame was sent", tag + "/not-sent")
        return
    cid, data, remote = rig.sent[-1]
    f = sx.items(data)
    sx.observe("frame", data)
    sx.prove(cid == TX and not remote, "LSS request on the master COB-ID", tag + "/cob-id")
    sx.prove(len(f) == 8, "LSS request is 8 bytes", tag + "/length")
    if len(f) == 8:
        sx.prove(sx.all_([a == b for a, b in zip(f, expect)]), "command specifier, little-endian fields, zero padding",
                 tag + "/bytes")


def slow_slave(which):
    """the slave answers after 0.65 s; with LssMaster.RESPONSE_TIMEOUT raised to 1 s (the documented knob) the
    services still work, and silence is reported after the configured time"""
    LssError = sx.mod("canopen.lss").LssError
    rig = Rig(reply=None)
    lss = rig.lss
    lss.RESPONSE_TIMEOUT = 1.0
    parked = []
    val = sx.fresh_int("val", 0, 0xFFFFFFFF)
    nid = sx.fresh_byte("nid")

    def send(can_id, data, remote=False):
        f = sx.items(data)
        cs = f[0]
        if which == "silence":
            return
        if bool(cs == 0x5E):
            parked.append(sx.mkbytes([0x5E, nid, 0, 0, 0, 0, 0, 0]))
        elif bool((cs >= 0x5A) & (cs <= 0x5D)):
            parked.append(sx.mkbytes([cs] + le32(val) + [0, 0, 0]))
        elif bool((cs == 0x11) | (cs == 0x13) | (cs == 0x17)):
            parked.append(sx.mkbytes([cs, 0, 0, 0, 0, 0, 0, 0]))
    rig.net.send_message = send

    def hook(kind, obj):
        if kind != "queue" or not parked:
            return
        t = sx.env().wait_timeout
        if t is not None and t < 0.65:
            return                       # the waiter gives up before the answer is there
        sx.env().advance(0.65)
        rig.net.notify(RX, parked.pop(0), 0.0)
    sx.env().delivery_hook = hook
    tag = "C18/slow/" + which
    t0 = sx.env().now
    try:
        if which == "inquire_node_id":
            sx.prove(lss.inquire_node_id() == nid, "slow answer", tag + "/value")
        elif which == "inquire_lss_address":
            sx.prove(lss.inquire_lss_address(0x5C) == val, "slow answer", tag + "/value")
        elif which == "configure_node_id":
            lss.configure_node_id(5)
        elif which == "store_configuration":
            lss.store_configuration()
        else:
            lss.inquire_node_id()
            sx.fail("silence not reported", tag + "/silence-accepted")
    except LssError:
        if which != "silence":
            sx.fail("an answer inside the configured time-out was not waited for", tag + "/failed")
        else:
            waited = sx.env().now - t0
            sx.prove(waited >= 1.0, "silence reported before the configured time-out had passed", tag + "/early")
    sx.reach("slow")


def framing(which, before=None):
    """every public request: 8 bytes on 0x7E5, cs and little-endian fields per CiA 305, rest zero - also when the
    same master has served another request before (`before`)"""
    LssError = sx.mod("canopen.lss").LssError
    state = {}

    def reply(frame):
        f = sx.items(frame)
        cs = f[0]
        if bool((cs == 0x11) | (cs == 0x13) | (cs == 0x17)):
            return [sx.mkbytes([cs, 0, 0, 0, 0, 0, 0, 0])]
        if bool(cs == 0x5E):
            return [sx.mkbytes([0x5E, state["nid"], 0, 0, 0, 0, 0, 0])]
        if bool((cs >= 0x5A) & (cs <= 0x5D)):
            return [sx.mkbytes([cs] + le32(state["val"]) + [0, 0, 0])]
        if bool(cs == 0x43):
            return [sx.mkbytes([0x44, 0, 0, 0, 0, 0, 0, 0])]
        return []
    rig = Rig(reply=reply)
    lss = rig.lss
    if before is not None:
        if before == "activate_bit_timing":
            lss.activate_bit_timing(sx.fresh_int("delay0", 1, 0xFFFF))
        elif before == "inquire_node_id":
            state["nid"] = sx.fresh_byte("nid0")
            lss.inquire_node_id()
        elif before == "configure_node_id":
            lss.configure_node_id(sx.fresh_byte("nid0"))
        elif before == "configure_bit_timing":
            lss.configure_bit_timing(sx.fresh_byte("idx0"))
        elif before == "switch_global":
            lss.send_switch_state_global(sx.fresh_byte("mode0"))
        elif before == "inquire_lss_address":
            state["val"] = sx.fresh_int("val0", 0, 0xFFFFFFFF)
            lss.inquire_lss_address(0x5A + sx.choice(4, "part0"))
        elif before == "store_configuration":
            lss.store_configuration()
        elif before == "selective":
            lss.send_switch_state_selective(*[sx.fresh_int("q%d" % i, 0, 0xFFFFFFFF) for i in range(4)])
        del rig.sent[:]
        sx.reach("framing-history")
    tag = "C18/framing/" + which + ("" if before is None else "/after-" + before)
    if which == "switch_global":
        mode = sx.fresh_byte("mode")
        lss.send_switch_state_global(mode)
        sx.prove(len(rig.sent) == 1, "one frame", tag + "/count")
        _frame_ok(rig, [0x04, mode, 0, 0, 0, 0, 0, 0], tag)
    elif which == "configure_node_id":
        nid = sx.fresh_byte("nid")
        lss.configure_node_id(nid)
        _frame_ok(rig, [0x11, nid, 0, 0, 0, 0, 0, 0], tag)
    elif which == "configure_bit_timing":
        idx = sx.fresh_byte("idx")
        lss.configure_bit_timing(idx)
        _frame_ok(rig, [0x13, 0, idx, 0, 0, 0, 0, 0], tag)
    elif which == "activate_bit_timing":
        d = sx.fresh_int("delay", 0, 0xFFFF)
        lss.activate_bit_timing(d)
        _frame_ok(rig, [0x15, d & 0xFF, d >> 8, 0, 0, 0, 0, 0], tag)
    elif which == "store_configuration":
        lss.store_configuration()
        _frame_ok(rig, [0x17, 0, 0, 0, 0, 0, 0, 0], tag)
    elif which == "inquire_node_id":
        state["nid"] = sx.fresh_byte("nid")
        got = lss.inquire_node_id()
        _frame_ok(rig, [0x5E, 0, 0, 0, 0, 0, 0, 0], tag)
        sx.prove(got == state["nid"], "inquire returns the slave's node id", tag + "/value")
    elif which == "inquire_lss_address":
        cs = 0x5A + sx.choice(4, "part")
        state["val"] = sx.fresh_int("val", 0, 0xFFFFFFFF)
        got = lss.inquire_lss_address(cs)
        _frame_ok(rig, [cs, 0, 0, 0, 0, 0, 0, 0], tag)
        sx.prove(got == state["val"], "inquire returns the slave's 32-bit value", tag + "/value")
    elif which == "selective":
        parts = [sx.fresh_int("p%d" % i, 0, 0xFFFFFFFF) for i in range(4)]
        ok = lss.send_switch_state_selective(*parts)
        sx.prove(len(rig.sent) == 4, "four frames", tag + "/count")
        for i in range(min(4, len(rig.sent))):
            f = sx.items(rig.sent[i][1])
            exp = [0x40 + i] + le32(parts[i]) + [0, 0, 0]
            sx.prove(rig.sent[i][0] == TX and len(f) == 8 and sx.all_([a == b for a, b in zip(f, exp)]) is not False,
                     "selective frame %d shape" % i, tag + "/shape")
            if len(f) == 8:
                sx.prove(sx.all_([a == b for a, b in zip(f, exp)]), "selective frame: cs 0x40+i, LE value", tag + "/bytes")
        sx.prove(ok is True, "confirmed selective switch reported", tag + "/confirmed")
    sx.reach("framing-" + which)


def replies(which, mode):
    """reply handling: returns normally only for the matching cs with error code 0; LssError on an error
    code, a wrong command specifier, or silence"""
    LssError = sx.mod("canopen.lss").LssError
    req_cs = {"configure_node_id": 0x11, "configure_bit_timing": 0x13, "store_configuration": 0x17,
              "inquire_node_id": 0x5E, "inquire_lss_address": 0x5B}[which]
    rep = sx.fresh_bytes("rep", 8)
    r = sx.items(rep)

    def reply(frame):
        return [] if mode == "silence" else [rep]
    rig = Rig(reply=reply)
    lss = rig.lss
    tag = "C18/replies/%s/%s" % (which, mode)
    try:
        if which == "configure_node_id":
            res = lss.configure_node_id(5)
        elif which == "configure_bit_timing":
            res = lss.configure_bit_timing(2)
        elif which == "store_configuration":
            res = lss.store_configuration()
        elif which == "inquire_node_id":
            res = lss.inquire_node_id()
        else:
            res = lss.inquire_lss_address(0x5B)
    except LssError:
        sx.observe("exc", "LssError")
        if mode == "silence":
            sx.reach("reply-silence")
            return
        if which.startswith("inquire"):
            sx.prove(r[0] != req_cs, "matching inquire reply rejected", tag + "/rejected")
        else:
            sx.prove((r[0] != req_cs) | (r[1] != 0), "successful reply rejected", tag + "/rejected")
        sx.reach("reply-error")
        return
    sx.prove(mode != "silence", "silence reported as success", tag + "/silence-accepted")
    if mode == "silence":
        return
    sx.prove(r[0] == req_cs, "reply with the wrong command specifier accepted", tag + "/wrong-cs")
    if which.startswith("inquire"):
        if which == "inquire_node_id":
            sx.prove(res == r[1], "node id from the reply", tag + "/value")
        else:
            sx.prove(res == (r[1] | (r[2] << 8) | (r[3] << 16) | (r[4] << 24)), "value from the reply", tag + "/value")
    else:
        sx.prove(r[1] == 0, "error code accepted", tag + "/error-accepted")
    sx.reach("reply-ok")


def late_reply(which, k=1):
    """a request times out, k replies arrive late, then the next request must get *its* reply"""
    LssError = sx.mod("canopen.lss").LssError
    state = dict(mode="silent")
    val = sx.fresh_int("val", 0, 0xFFFFFFFF)
    nid = sx.fresh_byte("nid")

    def reply(frame):
        f = sx.items(frame)
        if state["mode"] == "silent":
            return []
        if f[0] == 0x5E:
            return [sx.mkbytes([0x5E, nid, 0, 0, 0, 0, 0, 0])]
        if 0x5A <= f[0] <= 0x5D:
            return [sx.mkbytes([f[0]] + le32(val) + [0, 0, 0])]
        return [sx.mkbytes([f[0], 0, 0, 0, 0, 0, 0, 0])]
    rig = Rig(reply=reply)
    lss = rig.lss
    try:
        lss.inquire_lss_address(0x5D)
        sx.fail("silence reported as success", "C18/late/silence-accepted")
    except LssError:
        pass
    # the reply to the timed-out request arrives late (any frames, e.g. several devices answering)
    for i in range(k):
        rig.net.notify(RX, sx.fresh_bytes("late%d" % i, 8), 0.0)
    state["mode"] = "answer"
    tag = "C18/late/" + which
    try:
        if which == "inquire_node_id":
            got = lss.inquire_node_id()
            sx.prove(got == nid, "reply of an earlier, timed-out request was taken for this one", tag + "/value")
        elif which == "inquire_lss_address":
            got = lss.inquire_lss_address(0x5A)
            sx.prove(got == val, "reply of an earlier, timed-out request was taken for this one", tag + "/value")
        else:
            lss.configure_node_id(9)
    except LssError:
        sx.fail("request after a late reply failed", tag + "/failed")
        return
    sx.reach("late-reply")


def fast_scan(background, part, lo, w):
    """identity = background with w symbolic bits at bits lo..lo+w-1 of `part`"""
    ident = list(background)
    sym = sx.fresh_int("window", 0, (1 << w) - 1)
    mask = ((1 << w) - 1) << lo
    ident[part] = (ident[part] & ~mask & 0xFFFFFFFF) | (sym << lo)
    slave = LssSlave(ident)
    rig = Rig(slave=slave)
    ok, found = rig.lss.fast_scan()
    tag = "C18/fastscan"
    sx.prove(ok is True, "fast scan failed although a slave is present", tag + "/failed")
    if ok is not True:
        return
    sx.observe("found", list(found))
    sx.prove(len(found) == 4 and sx.all_([a == b for a, b in zip(found, ident)]) is not False, "identity shape",
             tag + "/shape")
    if len(found) == 4:
        sx.prove(sx.all_([a == b for a, b in zip(found, ident)]), "fast scan returns the slave's identity bit for bit",
                 tag + "/identity")
    sx.prove(slave.state == CONFIGURATION, "slave left in configuration state", tag + "/slave-state")
    for cid, data, remote in rig.sent:
        sx.prove(cid == TX and len(sx.items(data)) == 8, "fast scan frames: 8 bytes on 0x7E5", tag + "/frame")
    sx.reach("fastscan")


def fast_scan_twice(first, part, lo, w):
    """a second fast scan on the same master (another unconfigured device) is independent of the first"""
    rig = Rig(slave=LssSlave(list(first)))
    ok, found = rig.lss.fast_scan()
    sx.prove(ok is True and list(found) == list(first), "first scan", "C18/fastscan-twice/first")
    keep = list(found) if found else None
    ident = [0x01020304, 0x0A0B0C0D, 0x11223344, 0x55667788]
    sym = sx.fresh_int("window", 0, (1 << w) - 1)
    mask = ((1 << w) - 1) << lo
    ident[part] = (ident[part] & ~mask & 0xFFFFFFFF) | (sym << lo)
    slave2 = LssSlave(ident)
    rig.slave = slave2
    ok2, found2 = rig.lss.fast_scan()
    sx.prove(ok2 is True, "second fast scan on the same master failed", "C18/fastscan-twice/failed")
    if ok2 is True:
        sx.prove(sx.all_([a == b for a, b in zip(found2, ident)]), "second scan returns the second device's identity",
                 "C18/fastscan-twice/identity")
        sx.prove(slave2.state == CONFIGURATION, "second slave in configuration state", "C18/fastscan-twice/state")
        sx.prove(keep == list(first), "result of the first scan was rewritten", "C18/fastscan-twice/first-result")
    sx.reach("fastscan-twice")


def fast_scan_none():
    rig = Rig()
    ok, found = rig.lss.fast_scan()
    sx.prove(ok is False and found is None, "fast scan without a slave must fail", "C18/fastscan/none")
    sx.reach("fastscan-none")


def after_scan():
    """a selective switch addressed to the slave's identity is confirmed; inquire/configure/store work"""
    ident = [sx.fresh_int("id%d" % i, 0, 0xFFFFFFFF) for i in range(4)]
    slave = LssSlave(ident)
    rig = Rig(slave=slave)
    lss = rig.lss
    ok = lss.send_switch_state_selective(*ident)
    sx.prove(ok is True, "selective switch to the slave's identity not confirmed", "C18/selective/confirmed")
    sx.prove(slave.state == CONFIGURATION, "slave not in configuration state", "C18/selective/state")
    for i, cs in enumerate((0x5A, 0x5B, 0x5C, 0x5D)):
        sx.prove(lss.inquire_lss_address(cs) == ident[i], "inquire identity part", "C18/selective/inquire")
    sx.prove(lss.inquire_node_id() == 0xFF, "unconfigured node id", "C18/selective/node-id")
    nid = sx.fresh_int("nid", 1, 127)
    lss.configure_node_id(nid)
    sx.prove(slave.pending_node_id == nid, "node id configured", "C18/selective/configure")
    lss.store_configuration()
    sx.prove(slave.stored == 1, "store reached the slave", "C18/selective/store")
    sx.reach("after-scan")


def _backgrounds(seed):
    rnd = random.Random(seed or 12345)
    return [[0, 0, 0, 0], [0xFFFFFFFF] * 4, [rnd.getrandbits(32) for _ in range(4)]]


def jobs(tier):
    import os
    seed = int(os.environ.get("VERIF_SEED", "0") or 0)
    out = [dict(func="two_masters", params=dict(k=2 if tier == "quick" else 3), weight=500)]
    for w in ("inquire_node_id", "inquire_lss_address", "configure_node_id", "store_configuration", "silence"):
        out.append(dict(func="slow_slave", params=dict(which=w)))
    for w in ("switch_global", "configure_node_id", "configure_bit_timing", "activate_bit_timing",
              "store_configuration", "inquire_node_id", "inquire_lss_address", "selective"):
        out.append(dict(func="framing", params=dict(which=w)))
        for b in ("activate_bit_timing", "inquire_node_id", "configure_node_id", "configure_bit_timing", "switch_global",
                  "inquire_lss_address", "store_configuration", "selective"):
            out.append(dict(func="framing", params=dict(which=w, before=b)))
    for w in ("configure_node_id", "configure_bit_timing", "store_configuration", "inquire_node_id",
              "inquire_lss_address"):
        for mode in ("reply", "silence"):
            out.append(dict(func="replies", params=dict(which=w, mode=mode)))
    bgs = _backgrounds(seed)
    for bg in bgs:
        for part in range(4):
            for lo in range(0, 32, 8):
                out.append(dict(func="fast_scan", params=dict(background=bg, part=part, lo=lo, w=8), weight=300))
            if tier == "thorough":
                for lo in range(0, 24, 4):
                    out.append(dict(func="fast_scan", params=dict(background=bg, part=part, lo=lo, w=12), weight=5000))
                for lo in range(0, 32):
                    out.append(dict(func="fast_scan", params=dict(background=bg, part=part, lo=lo, w=1), weight=3))
    for w in ("inquire_node_id", "inquire_lss_address", "configure_node_id"):
        for k in (1, 2, 3):
            out.append(dict(func="late_reply", params=dict(which=w, k=k)))
    for first in ([0xFFFFFFFF] * 4, [0, 0, 0, 0], [0x80000001, 0x7FFFFFFE, 0x00FF00FF, 0x12345678]):
        for part in range(4):
            out.append(dict(func="fast_scan_twice", params=dict(first=first, part=part, lo=4 * part, w=4), weight=50))
    out.append(dict(func="fast_scan_none", params={}))
    out.append(dict(func="after_scan", params={}))
    return out


META = dict(
    level_text="Bounded symbolic execution of LssMaster (fast_scan, switch state global/selective, inquire, configure, "
               "activate, store and the private send helpers) against a reference CiA 305 slave: every request's "
               "arguments symbolic (framing is universal), reply frames fully symbolic or absent (all error codes, all "
               "wrong specifiers, silence), and for the fast scan a window of w symbolic identity bits at every position "
               "over three background identities: the master's control flow forks once per probed bit, so each job "
               "explores all 2^w identities of its window.",
    level_note="The scan forks per identity bit (2^128 paths if fully symbolic), hence the windows. Background identities: "
               "all-zero, all-one and one seeded random 128-bit value (VERIF_SEED).",
    bounds=dict(quick="framing/replies universal; fast scan: 8-bit windows at every byte position of the 128-bit identity "
                      "for each of 3 backgrounds (48 jobs x 256 identities)",
                thorough="adds 12-bit windows at every nibble-aligned position (72 jobs x 4096 identities) and every "
                         "single bit"),
    outside_bounds=["more than one unconfigured slave", "identities symbolic in more than 12 bits at once",
                    "the obsolete identify-remote-slave services"],
    assumptions=["reference slave written from CiA 305 (fast-scan state machine with LSSPos/LSSSub/LSSNext)"],
    stubs=["struct", "queue", "time.sleep", "Network.send_message replaced", "logging"],
    required_reach=["two-masters", "slow", "framing-history", "framing-switch_global", "framing-configure_node_id", "framing-configure_bit_timing",
                    "framing-activate_bit_timing", "framing-store_configuration", "framing-inquire_node_id",
                    "framing-inquire_lss_address", "framing-selective", "reply-ok", "reply-error", "reply-silence",
                    "fastscan", "fastscan-none", "after-scan", "late-reply", "fastscan-twice"],
    limits=dict(quick=dict(max_decisions=50000), thorough=dict(max_decisions=100000, crosscheck_every=500, crosscheck_max=20)),
    validate_every=dict(quick=5, thorough=40),
    max_validate=dict(quick=8, thorough=8),
)
