"""C11 - NMT commands, states and heartbeats follow the CiA 301 state machine."""
from symx import api as sx
from harness import common as C

CLAIMED = True

NODE = 5
OTHER = 9

# ---- reference, written from CiA 301 (plus the SLEEP/STANDBY specifiers the library defines) ----
STATE_NAMES = {0: "INITIALISING", 4: "STOPPED", 5: "OPERATIONAL", 80: "SLEEP", 96: "STANDBY",
               127: "PRE-OPERATIONAL"}
STATES = [0, 4, 5, 80, 96, 127]
CMD_TO_STATE = {1: 5, 2: 4, 80: 80, 96: 96, 128: 127, 129: 0, 130: 0}
NAME_TO_CMD = {"OPERATIONAL": 1, "STOPPED": 2, "SLEEP": 80, "STANDBY": 96, "PRE-OPERATIONAL": 128,
               "INITIALISING": 129, "RESET": 129, "RESET COMMUNICATION": 130}
INVALID_NAMES = ["", "operational", "BOOTUP", "UNKNOWN"]


def ref_state(state, cs):
    """state after command specifier cs (symbolic-safe, non-forking)."""
    new = state
    for c, s in CMD_TO_STATE.items():
        new = sx.ite(cs == c, s, new)
    return new


def ref_name_is(name, state):
    """`name` (concrete str from the implementation) is the name of `state` (maybe symbolic); a state
    number that is not one of the defined ones has no prescribed name"""
    r = sx.all_([state != s for s in STATES])
    for s, n in STATE_NAMES.items():
        if n == name:
            r = r | (state == s)
    return r


class Rig:
    def __init__(self):
        Network = sx.mod("canopen.network").Network
        RemoteNode = sx.mod("canopen.node.remote").RemoteNode
        LocalNode = sx.mod("canopen.node.local").LocalNode
        od = C.typed_od(with_pdo=False, extra=[C.mkvar("Producer heartbeat time", 0x1017, 0, C.U16, "rw",
                                                       default=0)])
        od2 = C.typed_od(with_pdo=False, extra=[C.mkvar("Producer heartbeat time", 0x1017, 0, C.U16, "rw",
                                                        default=0)])
        self.na, self.nb = Network(), Network()
        self.frames = []
        self.na.send_message = lambda cid, data, remote=False: self._send("a", cid, data, remote)
        self.nb.send_message = lambda cid, data, remote=False: self._send("b", cid, data, remote)
        self.remote = RemoteNode(NODE, od)
        self.local = LocalNode(NODE, od2)
        self.na.add_node(self.remote)
        self.nb.add_node(self.local)
        self.master = self.remote.nmt
        self.slave = self.local.nmt

    def _send(self, origin, cid, data, remote):
        self.frames.append((origin, cid, data, remote))
        (self.nb if origin == "a" else self.na).notify(cid, _asbytes(data), 1.0)

    def inject(self, cid, data):
        """a frame from a third party: seen by both networks"""
        self.na.notify(cid, data, 1.0)
        self.nb.notify(cid, data, 1.0)


def _asbytes(data):
    if isinstance(data, list):
        return sx.mkbytes(data)
    return data


def _sym_state(name):
    i = sx.choice(len(STATES), name)
    return STATES[i]


def _check_states(rig, m_exp, s_exp, tag):
    mn, sn = rig.master.state, rig.slave.state
    sx.observe("master", mn)
    sx.observe("slave", sn)
    sx.prove(ref_name_is(mn, m_exp), "master reports the reference state", "C11/%s/master-state" % tag)
    sx.prove(ref_name_is(sn, s_exp), "slave reports the reference state", "C11/%s/slave-state" % tag)


def _do_step(rig, kind, m, s, tag):
    """perform one step of `kind`; returns the reference (master, slave) states"""
    n0 = len(rig.frames)
    if kind == "send_command":
        code = sx.fresh_int("code", 0, 255)
        rig.master.send_command(code)
        new = rig.frames[n0:]
        sx.prove(len(new) == 1 and new[0][0] == "a" and new[0][1] == 0 and not new[0][3],
                 "exactly one frame on CAN id 0", "C11/%s/frame-count" % tag)
        d = sx.items(_asbytes(new[0][2]))
        sx.observe("frame", _asbytes(new[0][2]))
        sx.prove(len(d) == 2 and sx.all_([d[0] == code, d[1] == NODE]) if len(d) == 2 else False,
                 "frame is [command specifier, node id]", "C11/%s/frame" % tag)
        sx.reach("send_command")
        return ref_state(m, code), ref_state(s, code)
    if kind == "state_name":
        names = list(NAME_TO_CMD) + INVALID_NAMES
        name = names[sx.choice(len(names), "name")]
        try:
            rig.master.state = name
        except ValueError:
            sx.observe("exc", "ValueError")
            sx.prove(name not in NAME_TO_CMD, "valid state name rejected", "C11/%s/name-rejected" % tag)
            sx.prove(len(rig.frames) == n0, "rejected name sent a frame", "C11/%s/name-rejected-frame" % tag)
            sx.reach("invalid-name")
            return m, s
        sx.prove(name in NAME_TO_CMD, "invalid state name accepted", "C11/%s/name-accepted" % tag)
        if name not in NAME_TO_CMD:
            return m, s
        cs = NAME_TO_CMD[name]
        new = rig.frames[n0:]
        ok = len(new) == 1 and new[0][1] == 0 and bytes(_asbytes(new[0][2])) == bytes([cs, NODE])
        sx.prove(ok, "state name sends [cs, node id] on id 0", "C11/%s/name-frame" % tag)
        sx.reach("state-name")
        return CMD_TO_STATE[cs], ref_state(s, cs)
    if kind == "foreign":
        cs = sx.fresh_byte("cs")
        target = sx.fresh_byte("target")
        rig.inject(0, sx.mkbytes([cs, target]))
        sx.prove(len(rig.frames) == n0, "command reception must not emit frames", "C11/%s/foreign-frames" % tag)
        hit = (target == NODE) | (target == 0)
        sx.reach("foreign")
        return sx.ite(hit, ref_state(m, cs), m), sx.ite(hit, ref_state(s, cs), s)
    if kind == "heartbeat":
        b = sx.fresh_byte("hb")
        other = sx.choice(2, "hb_other")
        rig.inject(0x700 + (OTHER if other else NODE), sx.mkbytes([b]))
        if other:
            sx.reach("heartbeat-other")
            return m, s
        st = b & 0x7F            # undefined state numbers are stored as reported (no prescribed name)
        sx.reach("heartbeat")
        return sx.ite(st == 0, 127, st), s
    if kind == "slave_bootup":
        # the local application resets its own node: boot-up message, master reports PRE-OPERATIONAL
        # every way of saying it: the three state names that mean a reset, and the two command specifiers
        form = sx.choice(5, "reset_form")
        if form < 3:
            rig.slave.state = ("INITIALISING", "RESET", "RESET COMMUNICATION")[form]
        else:
            rig.slave.send_command((129, 130)[form - 3])
        new = rig.frames[n0:]
        ok = len(new) == 1 and new[0][0] == "b" and new[0][1] == 0x700 + NODE and \
            bytes(_asbytes(new[0][2])) == b"\x00"
        sx.prove(ok, "boot-up message [0] on 0x700+id", "C11/%s/bootup-frame" % tag)
        sx.reach("bootup")
        return 127, 0
    raise AssertionError(kind)


KINDS = ["send_command", "state_name", "foreign", "heartbeat", "slave_bootup"]


def step(kind, wild=False):
    """Inductive step from arbitrary states of master and slave (wild: the master holds any state
    number 0..127 a heartbeat may have reported, defined or not)."""
    rig = Rig()
    m = sx.fresh_int("m0w", 0, 127) if wild else _sym_state("m0")
    s = _sym_state("s0")
    if not (hasattr(rig.master, "_state") and hasattr(rig.slave, "_state") and hasattr(rig.master, "_state_received")):
        return      # state kept differently: the histories (from the initial state) still decide the property
    rig.master._state = m
    rig.slave._state = s
    # the last received heartbeat state is independent of the state commands have moved the view to
    if sx.choice(2, "has_received"):
        rig.master._state_received = sx.fresh_int("received", 0, 127)
    m2, s2 = _do_step(rig, kind, m, s, "step")
    _check_states(rig, m2, s2, "step")


def history(first, k):
    rig = Rig()
    m, s = 0, 0
    m, s = _do_step(rig, first, m, s, "history")
    _check_states(rig, m, s, "history")
    for i in range(k - 1):
        kind = KINDS[sx.choice(len(KINDS), "kind%d" % i)]
        m, s = _do_step(rig, kind, m, s, "history")
        _check_states(rig, m, s, "history")
    sx.reach("history")


def wait_heartbeat(deliver, prior=0):
    rig = Rig()
    NmtError = sx.mod("canopen.nmt").NmtError
    if prior:
        # an earlier, unsolicited heartbeat (a stale "received" flag must not satisfy the wait)
        rig.inject(0x700 + NODE, sx.mkbytes([sx.fresh_byte("hb0")]))
    b = sx.fresh_byte("hb")
    sx.assume(sx.any_([(b & 0x7F) == x for x in STATES]))

    left = [1 if deliver else 0]

    def hook(kind, obj):
        if kind == "condition" and left[0]:
            left[0] -= 1                 # one message, during the first wait
            rig.inject(0x700 + NODE, sx.mkbytes([b]))
    sx.env().delivery_hook = hook
    t0 = sx.env().now
    try:
        st = rig.master.wait_for_heartbeat(timeout=1)
    except NmtError:
        sx.observe("exc", "NmtError")
        sx.prove(not deliver, "heartbeat delivered but wait failed", "C11/wait/heartbeat-missed")
        sx.reach("wait-hb-timeout")
        return
    sx.observe("state", st)
    sx.prove(sx.env().now - t0 < 0.5, "the wait did not return on the message but only at its time-out",
             "C11/wait/heartbeat-late-return")
    sx.prove(bool(deliver), "wait returned without a heartbeat", "C11/wait/heartbeat-spurious")
    x = b & 0x7F
    sx.prove(ref_name_is(st, sx.ite(x == 0, 127, x)), "wait returns the reported state", "C11/wait/heartbeat-state")
    sx.reach("wait-hb")


def wait_bootup(pattern, prior=0):
    """pattern: per wake-up 'b' boot-up byte, 'h' another heartbeat, '-' nothing"""
    rig = Rig()
    NmtError = sx.mod("canopen.nmt").NmtError
    if prior:
        rig.inject(0x700 + NODE, sx.mkbytes([0]))      # an earlier boot-up message must not count
    pending = list(pattern)

    def hook(kind, obj):
        if kind != "condition" or not pending:
            return
        p = pending.pop(0)
        if p == "-":
            return
        b = sx.fresh_byte("hb")
        if p == "b":
            sx.assume((b & 0x7F) == 0)
        else:
            sx.assume(sx.any_([(b & 0x7F) == x for x in STATES if x != 0]))
        rig.inject(0x700 + NODE, sx.mkbytes([b]))
    sx.env().delivery_hook = hook
    try:
        rig.master.wait_for_bootup(timeout=1)
    except NmtError:
        sx.observe("exc", "NmtError")
        sx.prove("b" not in pattern, "boot-up delivered but wait failed", "C11/wait/bootup-missed")
        sx.reach("wait-boot-timeout")
        return
    sx.observe("ret", "ok")
    sx.prove("b" in pattern, "wait_for_bootup returned without a boot-up", "C11/wait/bootup-spurious")
    sx.prove(rig.master.state == "PRE-OPERATIONAL", "boot-up reported as PRE-OPERATIONAL", "C11/wait/bootup-state")
    sx.reach("wait-boot")


def node_id_from_dictionary(form):
    """RemoteNode(0, od) / RemoteNode(None, od): the node id comes from the object dictionary (documented); the NMT
    master addresses that id"""
    Network = sx.mod("canopen.network").Network
    RemoteNode = sx.mod("canopen.node.remote").RemoteNode
    od = C.typed_od(with_pdo=False)
    nid = sx.fresh_int("nid", 1, 127)
    od.node_id = nid
    net = Network()
    frames = []
    net.send_message = lambda cid, data, remote=False: frames.append((cid, data))
    node = RemoteNode(form, od)
    tag = "C11/node-id-from-od"
    sx.prove(node.id == nid, "node id taken from the dictionary", tag + "/id")
    net.add_node(node)
    name = ["OPERATIONAL", "STOPPED", "PRE-OPERATIONAL", "RESET"][sx.choice(4, "name")]
    node.nmt.state = name
    cs = {"OPERATIONAL": 1, "STOPPED": 2, "PRE-OPERATIONAL": 128, "RESET": 129}[name]
    sx.prove(len(frames) == 1 and frames[0][0] == 0, "one frame on CAN id 0", tag + "/frame")
    if len(frames) == 1:
        it = sx.items(_asbytes(frames[0][1]))
        sx.prove(len(it) == 2 and (it[0] == cs) & (it[1] == nid), "frame is [command specifier, node id]", tag + "/bytes")
    # a command another master addresses to this node is followed, one for another node is not
    other = sx.fresh_int("other", 1, 127)
    sx.assume(other != nid)
    net.notify(0, sx.mkbytes([2, other]), 0.0)
    sx.prove(node.nmt.state == STATE_NAMES[{1: 5, 2: 4, 128: 127, 129: 0}[cs]], "foreign command followed",
             tag + "/foreign")
    net.notify(0, sx.mkbytes([1, nid]), 0.0)
    sx.prove(node.nmt.state == "OPERATIONAL", "command for this node not followed", tag + "/own")
    sx.reach("node-id-from-od")


def foreign_command_heartbeat(modifiable):
    """the slave's heartbeat producer is running: a command addressed to another node leaves the state it reports
    (the byte in its heartbeat frames) unchanged; a command for this node or a broadcast changes it to the new state"""
    from harness import c17
    rig = c17.Rig(bool(modifiable))
    rig.local.sdo[0x1017].raw = 100
    rig.ref["hb"] = dict(period=0.1)
    name = ["OPERATIONAL", "STOPPED", "PRE-OPERATIONAL"][sx.choice(3, "start")]
    rig.local.nmt.state = name
    rig.hb_state = c17.CMD_TO_STATE[c17.NAME_TO_CMD[name]]
    c17.check(rig, "C11/foreign-heartbeat/start")
    cs = sx.fresh_byte("cs")
    other = sx.fresh_int("other", 1, 127)
    sx.assume(other != c17.LOCAL_ID)
    rig.net.notify(0, sx.mkbytes([cs, other]), 0.0)
    c17.check(rig, "C11/foreign-heartbeat/after-foreign")
    sx.prove(ref_name_is(rig.local.nmt.state, rig.hb_state), "slave state changed by a foreign command",
             "C11/foreign-heartbeat/state")
    sx.reach("foreign-heartbeat")


def wait_bootup_stream(nhb, period_ms):
    """the node keeps sending ordinary heartbeats (no boot-up) every period: wait_for_bootup(timeout=1) fails with
    the NMT error, and does so when its time-out has passed - not when the heartbeats happen to stop"""
    rig = Rig()
    NmtError = sx.mod("canopen.nmt").NmtError
    left = [nhb]
    period = period_ms / 1000.0

    def hook(kind, obj):
        if kind != "condition" or left[0] <= 0:
            return
        left[0] -= 1
        sx.env().advance(period)
        b = sx.fresh_byte("hb")
        sx.assume(sx.any_([(b & 0x7F) == x for x in STATES if x != 0]))
        rig.inject(0x700 + NODE, sx.mkbytes([b]))
    sx.env().delivery_hook = hook
    t0 = sx.env().now
    try:
        rig.master.wait_for_bootup(timeout=1)
    except NmtError:
        waited = sx.env().now - t0
        sx.observe("waited", round(waited, 3))
        sx.prove(waited <= 1 + 0.1 + 2 * period + 0.05, "the error came long after the time-out (heartbeats kept "
                 "restarting the wait)", "C11/wait/bootup-late-error")
        sx.reach("wait-boot-stream")
        return
    sx.fail("wait_for_bootup returned without a boot-up", "C11/wait/bootup-spurious")


def wait_threads(kind, prior, traffic=0, preempt=0):
    """the heartbeat arrives from a second thread while the caller enters / sits in the wait (traffic: another
    master's NMT command for some other node passes on the bus just before it)"""
    rig = Rig()
    NmtError = sx.mod("canopen.nmt").NmtError
    if prior:
        rig.inject(0x700 + NODE, sx.mkbytes([0 if kind == "bootup" else sx.fresh_byte("hb0")]))
    b = 0 if kind == "bootup" else sx.fresh_byte("hb")
    if kind != "bootup":
        sx.assume(sx.any_([(b & 0x7F) == x for x in STATES]))
    sched = sx.scheduler(preempt=preempt)

    def bus():
        if traffic:
            rig.inject(0, sx.mkbytes([sx.fresh_byte("other_cs"), NODE + 1]))
        rig.inject(0x700 + NODE, sx.mkbytes([b]))
    sched.spawn(bus, "bus")
    try:
        if kind == "bootup":
            rig.master.wait_for_bootup(timeout=1)
            st = rig.master.state
        else:
            st = rig.master.wait_for_heartbeat(timeout=1)
    except NmtError:
        sched.join()
        woken = any(sched.main.wait_results)
        sx.prove(not woken, "a waiter woken by the message still failed", "C11/threads/%s-missed" % kind)
        sx.reach("threads-timeout")
        return
    sched.join()
    woken = any(sched.main.wait_results)
    sx.prove(woken, "wait returned although no message arrived during the wait", "C11/threads/%s-spurious" % kind)
    x = b & 0x7F
    sx.prove(ref_name_is(st, sx.ite(x == 0, 127, x) if kind != "bootup" else 127), "state after the wait",
             "C11/threads/%s-state" % kind)
    sx.reach("threads-woken")


def two_waiters(kinds, preempt=0):
    """two threads wait on the same remote node (heartbeat / boot-up) while a third delivers one message, every
    schedule at lock granularity: when both were parked in their wait at the moment the message arrived, both waits
    return - a message is not used up by the first waiter that looks at it.  (A waiter that *starts* while another
    one is being woken resets the shared flag: that interleaving is outside the claim.)"""
    rig = Rig()
    NmtError = sx.mod("canopen.nmt").NmtError
    sched = sx.scheduler(preempt=preempt)
    res, parked = {}, {}

    def wait(kind, who):
        try:
            if kind == "b":
                rig.master.wait_for_bootup(timeout=1)
            else:
                rig.master.wait_for_heartbeat(timeout=1)
            res[who] = "ok"
        except NmtError:
            res[who] = "error"

    def feeder():
        for t in sched.threads:
            parked[t.name] = (t.state == "waiting")
        rig.inject(0x700 + NODE, sx.mkbytes([0]))          # a boot-up message matches both kinds of wait
    sched.spawn(lambda: wait(kinds[1], "b"), "b")
    sched.spawn(feeder, "feeder")
    wait(kinds[0], "a")
    sched.join()
    sx.observe("res", [res.get("a"), res.get("b"), parked.get("main"), parked.get("b")])
    if parked.get("main") and parked.get("b"):
        sx.prove(res.get("a") == "ok" and res.get("b") == "ok",
                 "a waiter that was parked when the message arrived failed with the NMT error",
                 "C11/two-waiters/%s/missed" % kinds)
        sx.reach("two-waiters-parked")
    sx.reach("two-waiters")


def jobs(tier):
    out = []
    for kinds in ("hh", "hb", "bh", "bb"):
        out.append(dict(func="two_waiters", params=dict(kinds=kinds)))
    for mod in (1, 0):
        out.append(dict(func="foreign_command_heartbeat", params=dict(modifiable=mod)))
    for form in (0, None):
        out.append(dict(func="node_id_from_dictionary", params=dict(form=form)))
    for kind in ("heartbeat", "bootup"):
        out.append(dict(func="wait_threads", params=dict(kind=kind, prior=0, traffic=1)))
    for nhb, per in ((12, 300), (40, 100)) if tier == "quick" else ((12, 300), (40, 100), (8, 900), (100, 50)):
        out.append(dict(func="wait_bootup_stream", params=dict(nhb=nhb, period_ms=per), weight=nhb))
    for kind in KINDS:
        out.append(dict(func="step", params=dict(kind=kind), weight=3))
        out.append(dict(func="step", params=dict(kind=kind, wild=True), weight=3))
    kmax = 2 if tier == "quick" else 3
    for k in range(1, kmax + 1):
        for first in KINDS:
            out.append(dict(func="history", params=dict(first=first, k=k), weight=10 ** k))
    for d in (0, 1):
        for prior in (0, 1):
            out.append(dict(func="wait_heartbeat", params=dict(deliver=d, prior=prior)))
    for kind in ("heartbeat", "bootup"):
        for prior in (0, 1):
            out.append(dict(func="wait_threads", params=dict(kind=kind, prior=prior)))
            # the same with one preemption placed at any source line of canopen code
            out.append(dict(func="wait_threads", params=dict(kind=kind, prior=prior, preempt=1), weight=300))
    if tier == "thorough":
        for kinds in ("hh", "hb"):
            out.append(dict(func="two_waiters", params=dict(kinds=kinds, preempt=1), weight=8000))
    for p in ([], ["b"], ["h", "b"], ["h"], ["h", "h", "b"], ["-"]):
        for prior in (0, 1):
            out.append(dict(func="wait_bootup", params=dict(pattern=p, prior=prior)))
    return out


META = dict(
    level_text="Bounded symbolic execution of NmtBase/NmtMaster/NmtSlave with a master (RemoteNode) and a slave "
               "(LocalNode) joined by a loopback: an inductive step from every pair of defined states with a "
               "symbolic command specifier (0..255), symbolic foreign [cs, target] frames, symbolic heartbeat bytes, "
               "all state names plus invalid ones; bounded histories from the initial state; waits under a "
               "condition-variable model. Reference machine written from CiA 301.",
    level_note="Step invariant: the slave state is one of the six defined ones, the master state any number 0..127 "
               "(a heartbeat may report anything). Condition.wait modelled; real threads outside.",
    bounds=dict(quick="step: 6x6 state pairs x {send_command(code 0..255 symbolic), state name (8 valid + 4 invalid), "
                      "foreign frame (cs, target symbolic), heartbeat byte symbolic (own / other node), slave boot-up}; "
                      "histories k<=2 from the initial state; wait patterns up to 3 wake-ups",
                thorough="histories k<=3"),
    outside_bounds=["the *name* reported for undefined state numbers", "a wait that starts while another waiter of the same node is being woken (it resets the shared flag)", "thread schedules beyond lock granularity plus one preemption at a source line",
                    "histories longer than the bound (covered by the inductive step under the stated invariant)"],
    assumptions=["node id 5 (other node 9): the code is uniform in the node id",
                 "fake clock advances by the time-out on a wake-up without delivery"],
    stubs=["struct", "threading.Condition", "time", "can (unused: send_message replaced on the instance)", "logging"],
    required_reach=["two-waiters-parked", "send_command", "state-name", "invalid-name", "foreign", "heartbeat", "heartbeat-other", "bootup",
                    "history", "wait-hb", "wait-hb-timeout", "wait-boot", "wait-boot-timeout", "wait-boot-stream", "foreign-heartbeat", "node-id-from-od", "threads-woken", "threads-timeout"],
    limits=dict(quick=dict(), thorough=dict()),
    validate_every=dict(quick=5, thorough=20),
)
