"""C15 - A PDO value set by the producer is the value the consumer reads."""
from symx import api as sx
from harness import common as C
from refmodels import cia301 as S301

CLAIMED = True

NID = 4
# layouts: list of (data type code, custom length or None)
LAYOUTS = {
    "suite": [(0x03, None), (0x05, 4), (0x02, 4), (0x04, None), (0x01, 1), (0x01, 1)],
    "aligned": [(0x05, None), (0x03, None), (0x07, None), (0x02, None)],
    "straddle": [(0x05, 3), (0x06, None), (0x02, 5), (0x04, None), (0x01, 1)],
    "wide": [(0x01, 1), (0x1B, None)],          # 1 bit + 64 bits: too long -> not used
    "odd": [(0x05, 1), (0x16, None), (0x10, None), (0x05, 7)],
}


def _od():
    od = C.typed_od(with_pdo=True)
    od.add_object(C.pdo_comm_record(0x1801, "TPDO2 communication parameter"))
    od.add_object(C.pdo_map_array(0x1A01, "TPDO2 mapping parameter"))
    # second variables of the same types so that a type can be mapped twice
    for code in (0x01, 0x05):
        od.add_object(C.mkvar("%s value 2" % S301.NAMES[code], 0x2200 + code, 0, code, "rw"))
    # names as the documentation uses them: a record with members, and a plain name that happens to read as a
    # hexadecimal number
    od.add_object(C.mkrecord("Application Status", 0x2300, [C.mkvar("n", 0x2300, 0, C.U8, "ro", default=2),
                                                            C.mkvar("Status All", 0x2300, 1, C.U8, "rw"),
                                                            C.mkvar("Actual Speed", 0x2300, 2, 0x03, "rw")]))
    od.add_object(C.mkvar("Feed", 0x2310, 0, C.U16, "rw"))
    return od


class Rig:
    def __init__(self):
        netmod = sx.mod("canopen.network")
        self.na, self.nb = netmod.Network(), netmod.Network()
        self.frames = []
        self.ts = []
        self.na.send_message = lambda cid, data, remote=False: self._send("a", cid, data, remote)
        self.nb.send_message = lambda cid, data, remote=False: self._send("b", cid, data, remote)
        self.producer = sx.mod("canopen.node.local").LocalNode(NID, _od())
        self.consumer = sx.mod("canopen.node.remote").RemoteNode(NID, _od())
        self.na.add_node(self.producer)
        self.nb.add_node(self.consumer)

    def _send(self, origin, cid, data, remote):
        self.frames.append((origin, cid, data, remote))
        ts = sx.fresh_int("ts", 0, 1 << 40)
        if not remote:
            self.ts.append(ts)
        # the frame reaches the other station the way python-can delivers it: as a Message through the bus listener
        # (remote requests as remote frames without data)
        can = sx.mod("canopen.network").can
        msg = can.Message(arbitration_id=cid, data=None if remote else sx.mkbytes(sx.items(data)),
                          is_remote_frame=bool(remote), is_extended_id=bool(cid > 0x7FF), timestamp=ts)
        (self.nb if origin == "a" else self.na).listeners[0].on_message_received(msg)


def _configure(m, layout, cob):
    m.clear()
    seen = {}
    vs = []
    for code, ln in LAYOUTS[layout]:
        idx = C.TYPE_INDEX[code] if code not in seen else 0x2200 + code
        seen[code] = True
        vs.append(m.add_variable(idx, 0, ln) if ln else m.add_variable(idx))
    m.cob_id = cob
    m.enabled = True
    m.subscribe()
    return vs


def _fresh_value(code, ln, name):
    if code == S301.BOOLEAN:
        return sx.fresh_bool(name)
    nm, w, signed = S301.INT_TYPES[code]
    bits = ln or w
    if signed:
        return sx.fresh_int(name, -(1 << (bits - 1)), (1 << (bits - 1)) - 1)
    return sx.fresh_int(name, 0, (1 << bits) - 1)


def roundtrip(layout):
    rig = Rig()
    cob = sx.fresh_int("cob", 0x181, 0x57F)
    pm, cm = rig.producer.tpdo[1], rig.consumer.tpdo[1]
    pvars = _configure(pm, layout, cob)
    cvars = _configure(cm, layout, cob)
    cm.subscribe()              # subscribing again (read() then save() does that) must not duplicate delivery
    calls = []
    seen = []          # what a callback sees when it runs: the frame's timestamp and data, already in place
    cm.add_callback(lambda mp: (calls.append(("a", mp)), seen.append((mp.timestamp, sx.mkbytes(sx.items(mp.data))))))
    cm.add_callback(lambda mp: calls.append(("b", mp)))
    vals = []
    for i, (code, ln) in enumerate(LAYOUTS[layout]):
        v = _fresh_value(code, ln, "v%d" % i)
        vals.append(v)
        pvars[i].raw = v
    n0 = len(rig.frames)
    pm.transmit()
    tag = "C15/roundtrip/%s" % layout
    new = rig.frames[n0:]
    sx.prove(len(new) == 1 and new[0][0] == "a" and not new[0][3], "transmit sends one data frame", tag + "/frame-count")
    if len(new) != 1:
        return
    sx.observe("frame", new[0][2])
    sx.prove(new[0][1] == cob, "transmit uses the map's COB-ID", tag + "/cob-id")
    sx.prove(sx.eq_bytes(sx.mkbytes(sx.items(new[0][2])), sx.mkbytes(sx.items(pm.data))), "transmit sends the current data",
             tag + "/data")
    for i, v in enumerate(vals):
        got = cvars[i].raw
        sx.prove(got == v, "consumer reads the value the producer set", tag + "/value")
    sx.prove(cm.timestamp == rig.ts[-1], "consumer map carries the frame's timestamp", tag + "/timestamp")
    sx.prove(len(calls) == 2 and calls[0][0] == "a" and calls[1][0] == "b" and calls[0][1] is cm and calls[1][1] is cm,
             "each callback once with the map", tag + "/callbacks")
    sx.prove(len(seen) == 1 and seen[0][0] is not None and (seen[0][0] == rig.ts[-1]) is not False
             and sx.eq_bytes(seen[0][1], sx.mkbytes(sx.items(new[0][2]))) is not False,
             "inside a callback the map does not yet carry the frame's timestamp and data", tag + "/callback-sees")
    if len(seen) == 1 and seen[0][0] is not None:
        sx.prove((seen[0][0] == rig.ts[-1]) & sx.eq_bytes(seen[0][1], sx.mkbytes(sx.items(new[0][2]))),
                 "callback sees the frame's timestamp and data", tag + "/callback-state")
    # lookups reach the same variables
    name = cvars[0].name
    sx.prove(rig.consumer.tpdo[1][name] is cvars[0] and rig.consumer.tpdo[1][0] is cvars[0]
             and rig.consumer.pdo[cvars[0].index] is cvars[0] and rig.consumer.tpdo[name] is cvars[0]
             and rig.consumer.tpdo[1][cvars[1].index] is cvars[1],
             "lookup by number, index and name", tag + "/lookup")
    sx.reach("roundtrip")


def named_lookup():
    """the documented way: variables mapped and looked up by name ('Group', 'Member' / 'Group.Member' / plain name)"""
    rig = Rig()
    pm = rig.producer.tpdo[1]
    cm = rig.consumer.tpdo[1]
    cob = sx.fresh_int("cob", 0x181, 0x57F)
    for m in (pm, cm):
        m.clear()
        m.add_variable("Application Status", "Status All")
        m.add_variable("Application Status", "Actual Speed")
        m.add_variable("Feed")
        m.cob_id = cob
        m.enabled = True
        m.subscribe()
    st = sx.fresh_int("status", 0, 255)
    sp = sx.fresh_int("speed", -(1 << 15), (1 << 15) - 1)
    fd = sx.fresh_int("feed", 0, 0xFFFF)
    tag = "C15/named"
    try:
        pm["Application Status.Status All"].raw = st
        rig.producer.tpdo["Application Status.Actual Speed"].raw = sp
        pm["Feed"].raw = fd
        pm.transmit()
        got = (cm["Application Status.Status All"].raw, rig.consumer.tpdo["Application Status.Actual Speed"].raw,
               rig.consumer.tpdo["Feed"].raw, cm[0x2310].raw, cm["2310"].raw, cm[2].raw)
    except Exception as e:
        sx.observe("exc", C.exc_name(e))
        sx.fail("lookup of a mapped variable by its name raised %s" % C.exc_name(e), tag + "/raises")
        return
    sx.observe("got", list(got))
    sx.prove((got[0] == st) & (got[1] == sp) & (got[2] == fd) & (got[3] == fd) & (got[4] == fd) & (got[5] == fd),
             "values read through names, index, hex string and position", tag + "/values")
    try:
        cm["No such name"]
        sx.fail("unknown name found", tag + "/unknown")
    except KeyError:
        pass
    sx.reach("named")


def remapped():
    """the documented re-mapping flow: variables are looked up through the node (node.tpdo['name']), then one map is
    re-mapped (clear() + add_variable() in another order), then values travel: the same node-level lookups reach the
    variables where they are *now*"""
    rig = Rig()
    pm, cm = rig.producer.tpdo[1], rig.consumer.tpdo[1]
    cob = sx.fresh_int("cob", 0x181, 0x57F)
    order1 = [("Application Status", "Status All"), ("Application Status", "Actual Speed"), ("Feed", None)]
    order2 = [("Feed", None), ("Application Status", "Actual Speed"), ("Application Status", "Status All")]

    def setup(order):
        for m in (pm, cm):
            m.clear()
            for grp, mem in order:
                m.add_variable(grp, mem) if mem else m.add_variable(grp)
            m.cob_id = cob
            m.enabled = True
            m.subscribe()
    names = ("Application Status.Status All", "Application Status.Actual Speed", "Feed")
    tag = "C15/remapped"
    try:
        setup(order1)
        for nm in names:                    # first look-ups through the nodes
            rig.consumer.tpdo[nm]
            rig.producer.tpdo[nm]
        rig.consumer.tpdo[0x2310]
        setup(order2)
        st = sx.fresh_int("status", 0, 255)
        sp = sx.fresh_int("speed", -(1 << 15), (1 << 15) - 1)
        fd = sx.fresh_int("feed", 0, 0xFFFF)
        rig.producer.tpdo[names[0]].raw = st
        rig.producer.tpdo[names[1]].raw = sp
        rig.producer.tpdo[names[2]].raw = fd
        pm.transmit()
        got = (rig.consumer.tpdo[names[0]].raw, rig.consumer.tpdo[names[1]].raw, rig.consumer.tpdo[names[2]].raw,
               rig.consumer.tpdo[0x2310].raw, cm[0].raw)
    except Exception as e:
        sx.observe("exc", C.exc_name(e))
        sx.fail("re-mapping flow raised %s" % C.exc_name(e), tag + "/raises")
        return
    sx.observe("got", list(got))
    sx.prove((got[0] == st) & (got[1] == sp) & (got[2] == fd) & (got[3] == fd) & (got[4] == fd),
             "values read through node-level lookups after a re-mapping", tag + "/values")
    sx.reach("remapped")


def short_then_full():
    """another producer uses the consumer map's COB-ID for a shorter PDO (colliding COB-IDs, different lengths): after
    such a short frame the next full-length frame is again read completely - the map's buffer follows the frame"""
    rig = Rig()
    cob = sx.fresh_int("cob", 0x181, 0x57F)
    pm, cm = rig.producer.tpdo[1], rig.consumer.tpdo[1]
    pvars = _configure(pm, "aligned", cob)
    cvars = _configure(cm, "aligned", cob)
    tag = "C15/short-then-full"

    def full(rnd):
        vals = []
        for i, (code, ln) in enumerate(LAYOUTS["aligned"]):
            v = _fresh_value(code, ln, "v%d_%d" % (rnd, i))
            vals.append(v)
            pvars[i].raw = v
        pm.transmit()
        try:
            for i, v in enumerate(vals):
                sx.prove(cvars[i].raw == v, "consumer reads the full frame (round %d)" % rnd, tag + "/value")
        except Exception as e:
            sx.observe("exc", C.exc_name(e))
            sx.fail("reading a variable after a full-length frame raised %s" % C.exc_name(e), tag + "/raises")
    full(0)
    nshort = 1 + sx.choice(3, "nshort")
    rig.nb.notify(cob, sx.new_bytearray(sx.items(sx.fresh_bytes("short", nshort))), sx.fresh_int("ts_s", 1, 1 << 40))
    full(1)
    sx.reach("short-then-full")


def transmit_twice(tt):
    """transmit() sends exactly the map's COB-ID and current data, every time it is called - also twice in quick
    succession on a map with a configured inhibit time (event-driven transmission types)"""
    rig = Rig()
    cob = sx.fresh_int("cob", 0x181, 0x57F)
    pm, cm = rig.producer.tpdo[1], rig.consumer.tpdo[1]
    pvars = _configure(pm, "aligned", cob)
    cvars = _configure(cm, "aligned", cob)
    for m in (pm, cm):
        m.trans_type = tt
        m.inhibit_time = sx.fresh_int("inhibit", 0, 0xFFFF)
        m.event_timer = sx.fresh_int("event", 0, 0xFFFF)
    tag = "C15/transmit-twice/%d" % tt
    for rnd in range(3):
        vals = []
        for i, (code, ln) in enumerate(LAYOUTS["aligned"]):
            v = _fresh_value(code, ln, "v%d_%d" % (rnd, i))
            vals.append(v)
            pvars[i].raw = v
        n0 = len(rig.frames)
        pm.transmit()
        new = rig.frames[n0:]
        sx.prove(len(new) == 1 and new[0][0] == "a" and not new[0][3], "every transmit() sends one data frame",
                 tag + "/frame-count")
        if len(new) != 1:
            return
        sx.prove((new[0][1] == cob) & sx.eq_bytes(sx.mkbytes(sx.items(new[0][2])), sx.mkbytes(sx.items(pm.data))),
                 "COB-ID and current data", tag + "/frame")
        for i, v in enumerate(vals):
            sx.prove(cvars[i].raw == v, "consumer reads the value just transmitted", tag + "/value")
        sx.prove(cm.timestamp == rig.ts[-1], "timestamp of the latest frame", tag + "/timestamp")
    sx.reach("transmit-twice")


def roundtrip_from_od(code):
    """both sides take the PDO configuration from the object dictionary (read(from_od=True), as load_configuration
    does): one object of the given type fills the PDO - including the 64-bit types"""
    rig_od = _od()
    w = S301.width(code)
    rig = Rig()
    cob = 0x1A5
    for node in (rig.producer, rig.consumer):
        od = node.object_dictionary
        od[0x1800][1].default = cob
        od[0x1800][2].default = 255
        od[0x1A00][0].default = 1
        od[0x1A00][1].default = (C.TYPE_INDEX[code] << 16) | w
    pm, cm = rig.producer.tpdo[1], rig.consumer.tpdo[1]
    pm.read(from_od=True)
    cm.read(from_od=True)
    tag = "C15/from-od/%s" % S301.NAMES[code]
    sx.prove(len(pm.map) == 1 and len(cm.map) == 1, "mapping taken from the dictionary", tag + "/mapping")
    if len(pm.map) != 1 or len(cm.map) != 1:
        return
    sx.prove(pm.map[0].length == w and len(pm.data) == w // 8 and len(cm.data) == w // 8, "object fills the PDO",
             tag + "/size")
    if code in (S301.REAL32, S301.REAL64):
        val = sx.fresh_bytes("val", w // 8)
        pm.map[0].data = val
        pm.transmit()
        sx.prove(sx.eq_bytes(sx.mkbytes(sx.items(cm.map[0].data)), val), "consumer reads the value", tag + "/value")
    else:
        lo, hi = S301.int_range(code)
        val = sx.fresh_int("val", lo, hi)
        pm.map[0].raw = val
        pm.transmit()
        sx.prove(cm.map[0].raw == val, "consumer reads the value", tag + "/value")
    sx.reach("from-od")


def collide():
    """a received frame updates only the maps subscribed to its COB-ID"""
    rig = Rig()
    c1 = sx.fresh_int("c1", 0x181, 0x57F)
    c2 = sx.fresh_int("c2", 0x181, 0x57F)
    m1, m2 = rig.consumer.tpdo[1], rig.consumer.tpdo[2]
    v1 = _configure(m1, "aligned", c1)
    v2 = _configure(m2, "aligned", c2)
    calls = []
    m1.add_callback(lambda mp: calls.append(1))
    m2.add_callback(lambda mp: calls.append(2))
    old1 = sx.mkbytes(sx.items(m1.data))
    old2 = sx.mkbytes(sx.items(m2.data))
    fid = sx.fresh_int("fid", 0x181, 0x57F)
    data = sx.fresh_bytes("d", 8)
    ts = sx.fresh_int("ts0", 0, 1 << 40)
    # the frame arrives as python-can delivers it: one mutable bytearray handed to every subscriber of the id
    rig.nb.notify(fid, sx.new_bytearray(sx.items(data)), ts)
    for m, c, old, k in ((m1, c1, old1, 1), (m2, c2, old2, 2)):
        hit = bool(fid == c)
        now = sx.mkbytes(sx.items(m.data))
        if hit:
            sx.prove(sx.eq_bytes(now, data), "subscribed map not updated", "C15/collide/updated")
            sx.prove(calls.count(k) == 1, "callback of the updated map", "C15/collide/callback")
            sx.prove(m.timestamp == ts, "timestamp", "C15/collide/timestamp")
            sx.reach("collide-hit")
        else:
            sx.prove(sx.eq_bytes(now, old), "map with another COB-ID changed", "C15/collide/untouched")
            sx.prove(calls.count(k) == 0, "callback of an unrelated map ran", "C15/collide/foreign-callback")
            sx.prove(m.timestamp is None, "timestamp of an unrelated map changed", "C15/collide/foreign-timestamp")
            sx.reach("collide-miss")
    if bool(c1 == c2) and bool(fid == c1):
        # both maps received the frame; from now on they are independent again: a value written to a variable of one
        # map (e.g. to send it on) does not show up in the other
        nv = sx.fresh_int("nv", 0, 255)
        v1[0].raw = nv
        sx.prove(sx.eq_bytes(sx.mkbytes(sx.items(m2.data)), data), "writing to one map changed the other map that "
                 "received the same frame", "C15/collide/aliased")
        sx.prove(sx.items(m1.data)[0] == nv, "value written", "C15/collide/written")
        sx.reach("collide-both")


def wait(deliver, prior=0):
    rig = Rig()
    cm = rig.consumer.tpdo[1]
    _configure(cm, "aligned", 0x184)
    if prior:
        # an earlier reception (so a stale timestamp exists)
        rig.nb.notify(0x184, sx.fresh_bytes("d0", 8), sx.fresh_int("tsp", 1, 1 << 40))
    ts = sx.fresh_int("ts0", 1, 1 << 40)
    data = sx.fresh_bytes("d", 8)

    def hook(kind, obj):
        if kind == "condition" and deliver:
            rig.nb.notify(0x184 if deliver == 1 else 0x185, data, ts)
    sx.env().delivery_hook = hook
    r = cm.wait_for_reception(timeout=1)
    sx.observe("r", r)
    if deliver == 1:
        sx.prove(r is not None and (r == ts) is not False, "waiting reader not woken by the frame", "C15/wait/missed")
        if r is not None:
            sx.prove(r == ts, "wait returns the frame's timestamp", "C15/wait/timestamp")
        sx.reach("wait-hit")
    else:
        sx.prove(r is None, "wait returned without a frame for this map", "C15/wait/spurious")
        sx.reach("wait-timeout")


def wait_threads(prior, preempt=0):
    """reception from a second thread while the reader enters / sits in wait_for_reception(): every
    schedule at lock granularity.  A reader that was woken by the frame must get its timestamp; a reader
    that timed out gets None."""
    rig = Rig()
    cm = rig.consumer.tpdo[1]
    _configure(cm, "aligned", 0x184)
    if prior:
        rig.nb.notify(0x184, sx.fresh_bytes("d0", 8), sx.fresh_int("tsp", 1, 1 << 40))
    ts = sx.fresh_int("ts0", 1, 1 << 40)
    data = sx.fresh_bytes("d", 8)
    sched = sx.scheduler(preempt=preempt)
    calls = []
    cm.add_callback(lambda mp: calls.append(mp))
    sched.spawn(lambda: rig.nb.notify(0x184, data, ts), "receiver")
    r = cm.wait_for_reception(timeout=1)
    sched.join()
    woken = sched.main.wait_results[-1] if sched.main.wait_results else False
    sx.observe("r", [r, woken])
    if woken:
        sx.prove(r is not None and (r == ts) is not False, "a reader woken by the frame did not get it", "C15/threads/missed")
        if r is not None:
            sx.prove(r == ts, "woken reader gets the frame's timestamp", "C15/threads/timestamp")
        sx.reach("threads-woken")
    else:
        sx.prove(r is None, "a reader that timed out reported a reception", "C15/threads/spurious")
        sx.reach("threads-timeout")
    sx.prove(sx.eq_bytes(sx.mkbytes(sx.items(cm.data)), data) and len(calls) == 1, "frame received exactly once",
             "C15/threads/received")


def remote_request():
    rig = Rig()
    cm = rig.consumer.tpdo[1]
    cob = sx.fresh_int("cob", 0x181, 0x57F)
    _configure(cm, "aligned", cob)
    # the producer's own map on that COB-ID holds the values to be sent: a remote request must not disturb it
    pm = rig.producer.tpdo[1]
    _configure(pm, "aligned", cob)
    image = sx.fresh_bytes("image", len(pm.data))
    for i, b in enumerate(sx.items(image)):
        pm.data[i] = b
    pcalls = []
    pm.add_callback(lambda mp: pcalls.append(mp))
    cm.enabled = bool(sx.choice(2, "enabled"))
    cm.rtr_allowed = bool(sx.choice(2, "rtr"))
    # whatever else is configured (transmission type incl. the RTR-only types 252/253, timers) has no say in this
    cm.trans_type = sx.fresh_int("tt", 0, 255)
    cm.inhibit_time = sx.fresh_int("inh", 0, 0xFFFF)
    cm.event_timer = sx.fresh_int("evt", 0, 0xFFFF)
    n0 = len(rig.frames)
    cm.remote_request()
    new = rig.frames[n0:]
    sx.prove(sx.eq_bytes(sx.mkbytes(sx.items(pm.data)), image) and len(pcalls) == 0 and not pm.is_received,
             "a remote request frame was taken for received data by the map on that COB-ID", "C15/rtr/disturbs-producer")
    if cm.enabled and cm.rtr_allowed:
        sx.prove(len(new) == 1 and new[0][3] is True and len(sx.items(new[0][2])) == 0, "one empty remote frame",
                 "C15/rtr/frame")
        if len(new) == 1:
            sx.prove(new[0][1] == cob, "remote request on the map's COB-ID", "C15/rtr/cob-id")
        sx.reach("rtr-sent")
    else:
        sx.prove(len(new) == 0, "remote request sent although not allowed", "C15/rtr/not-allowed")
        sx.reach("rtr-suppressed")


def remote_request_from_od():
    """the RTR / valid flags come from the COB-ID entry (bit 30 / bit 31) when the configuration is read"""
    rig = Rig()
    cm = rig.consumer.tpdo[1]
    od = rig.consumer.object_dictionary
    word = sx.fresh_int("cobword", 0, 0xFFFFFFFF)
    sx.assume(((word & 0x1FFFFFFF) >= 0x181) & ((word & 0x1FFFFFFF) <= 0x57F))
    od[0x1800][1].value = word
    od[0x1800][2].default = 1
    od[0x1A00][0].default = 1
    od[0x1A00][1].default = (C.TYPE_INDEX[0x05] << 16) | 8
    cm.read(from_od=True)
    n0 = len(rig.frames)
    cm.remote_request()
    new = rig.frames[n0:]
    allowed = ((word & (1 << 31)) == 0) & ((word & (1 << 30)) == 0)
    if new:
        sx.prove(allowed, "remote request sent although the COB-ID entry forbids RTR or the PDO is invalid",
                 "C15/rtr-od/not-allowed")
        sx.prove(len(new) == 1 and new[0][3] is True and (new[0][1] == (word & 0x1FFFFFFF)) is not False,
                 "remote frame shape", "C15/rtr-od/frame")
        sx.reach("rtr-od-sent")
    else:
        sx.prove(sx.not_(allowed), "remote request suppressed although allowed", "C15/rtr-od/suppressed")
        sx.reach("rtr-od-suppressed")


def remote_request_after_save():
    """the configuration is saved to the producing node over SDO and read back (same map object, and a fresh
    consumer): a map that does not allow RTR still does not send remote requests afterwards"""
    rig = Rig()
    cm = rig.consumer.tpdo[1]
    cob = sx.fresh_int("cob", 0x181, 0x57F)
    _configure(cm, "aligned", cob)
    rtr = bool(sx.choice(2, "rtr"))
    cm.rtr_allowed = rtr
    cm.trans_type = 254
    tag = "C15/rtr-saved"
    try:
        cm.save()
        cm.read()
    except Exception as e:
        sx.observe("exc", C.exc_name(e))
        sx.fail("save()/read() against the producing node raised %s" % C.exc_name(e), tag + "/raises")
        return
    sx.prove(bool(cm.rtr_allowed) == rtr and bool(cm.enabled), "flags after save() and read()", tag + "/flags")
    n0 = len(rig.frames)
    cm.remote_request()
    new = [f for f in rig.frames[n0:] if f[3]]
    sx.prove(len(new) == (1 if rtr else 0), "remote request sent exactly when the saved configuration allows it",
             tag + "/request")
    sx.reach("rtr-saved")


def two_readers(preempt=0):
    """two threads wait for the same map while a third delivers one frame (every schedule at lock granularity):
    every reader that was parked in wait_for_reception() when the frame arrived gets its timestamp"""
    rig = Rig()
    cm = rig.consumer.tpdo[1]
    _configure(cm, "aligned", 0x184)
    ts = sx.fresh_int("ts0", 1, 1 << 40)
    data = sx.fresh_bytes("d", 8)
    sched = sx.scheduler(preempt=preempt)
    res, parked = {}, {}

    def reader_b():
        res["b"] = cm.wait_for_reception(timeout=1)

    def feeder():
        for t in sched.threads:
            parked[t.name] = (t.state == "waiting")
        rig.nb.notify(0x184, data, ts)
    sched.spawn(reader_b, "b")
    sched.spawn(feeder, "feeder")
    res["a"] = cm.wait_for_reception(timeout=1)
    sched.join()
    sx.observe("res", [res.get("a"), res.get("b")])
    sx.observe("parked", [parked.get("main"), parked.get("b")])
    if parked.get("main") and parked.get("b"):
        sx.prove(res.get("a") is not None and res.get("b") is not None, "a parked reader was not woken by the frame",
                 "C15/two-readers/missed")
        if res.get("a") is not None and res.get("b") is not None:
            sx.prove((res["a"] == ts) & (res["b"] == ts), "both readers get the frame's timestamp",
                     "C15/two-readers/timestamp")
        woken = {t.name: (bool(t.wait_results) and t.wait_results[-1] is True) for t in sched.threads}
        sx.observe("woken", [woken.get("main"), woken.get("b")])
        sx.prove(woken.get("main") and woken.get("b"), "a parked reader slept on until its time-out although the frame "
                 "had arrived", "C15/two-readers/not-woken")
        sx.reach("two-readers-parked")
    sx.reach("two-readers")


def collide_disabled():
    """a disabled map sharing the COB-ID of an enabled one must not take the enabled map's subscription away"""
    rig = Rig()
    c1 = sx.fresh_int("c1", 0x181, 0x57F)
    m1, m2 = rig.consumer.tpdo[1], rig.consumer.tpdo[2]
    _configure(m1, "aligned", c1)
    _configure(m2, "aligned", c1)
    m2.enabled = False
    m2.subscribe()               # what read()/save() do after a reconfiguration
    data = sx.fresh_bytes("d", 8)
    rig.nb.notify(c1, data, 9)
    sx.prove(sx.eq_bytes(sx.mkbytes(sx.items(m1.data)), data) and m1.timestamp == 9,
             "the enabled map no longer receives after a disabled sibling (re)subscribed", "C15/collide/disabled-sibling")
    sx.reach("collide-disabled")


def sequence(k, s0=None, s1=None):
    """steps: set+transmit / foreign frame / reconfigure COB-ID on both sides"""
    rig = Rig()
    cob = sx.fresh_int("cob", 0x181, 0x57F)
    pm, cm = rig.producer.tpdo[1], rig.consumer.tpdo[1]
    pvars = _configure(pm, "straddle", cob)
    cvars = _configure(cm, "straddle", cob)
    current = [None] * len(pvars)
    for i in range(k):
        if i == 0 and s0 is not None:
            step = s0
        elif i == 1 and s1 is not None:
            step = s1
        else:
            step = sx.choice(3, "step%d" % i)
        if step == 0:
            j = sx.choice(len(pvars), "var%d" % i)
            code, ln = LAYOUTS["straddle"][j]
            v = _fresh_value(code, ln, "val%d" % i)
            pvars[j].raw = v
            pm.transmit()
            # the whole frame is now on the consumer (per-variable decoding: roundtrip harness / C05)
            sx.prove(sx.eq_bytes(sx.mkbytes(sx.items(cm.data)), sx.mkbytes(sx.items(pm.data))),
                     "consumer mirrors the producer after transmit", "C15/sequence/mirror")
            sx.prove(cvars[j].raw == v, "consumer reads the value just set", "C15/sequence/value")
            sx.reach("seq-transmit")
        elif step == 1:
            fid = sx.fresh_int("fid%d" % i, 0x181, 0x57F)     # may be an id the map used earlier
            sx.assume(fid != cob)
            before = sx.mkbytes(sx.items(cm.data))
            rig.nb.notify(fid, sx.fresh_bytes("junk%d" % i, 8), 5)
            sx.prove(sx.eq_bytes(sx.mkbytes(sx.items(cm.data)), before), "foreign frame changed the map",
                     "C15/sequence/foreign")
            sx.reach("seq-foreign")
        else:
            new = sx.fresh_int("newcob%d" % i, 0x181, 0x57F)
            sx.assume(new != cob)
            # the old subscription stays (the API offers no per-map unsubscribe): frames on the old
            # id must no longer update the map
            cob = new
            pm.cob_id = new
            cm.cob_id = new
            cm.subscribe()
            sx.reach("seq-reconfigure")
    sx.reach("sequence")


def jobs(tier):
    out = [dict(func="named_lookup", params={}), dict(func="remote_request_after_save", params={}),
           dict(func="two_readers", params={}, weight=50), dict(func="remapped", params={}),
           dict(func="short_then_full", params={})]
    for tt in (255, 254, 1):
        out.append(dict(func="transmit_twice", params=dict(tt=tt)))
    for code in (0x1B, 0x15, 0x11, 0x07, 0x18) if tier == "quick" else (0x1B, 0x15, 0x11, 0x07, 0x18, 0x08, 0x10, 0x16, 0x19):
        out.append(dict(func="roundtrip_from_od", params=dict(code=code)))
    for layout in ("suite", "aligned", "straddle", "odd"):
        out.append(dict(func="roundtrip", params=dict(layout=layout), weight=5))
    out.append(dict(func="collide", params={}))
    for d in (0, 1, 2):
        for prior in (0, 1):
            out.append(dict(func="wait", params=dict(deliver=d, prior=prior)))
    out.append(dict(func="remote_request", params={}))
    out.append(dict(func="remote_request_from_od", params={}))
    out.append(dict(func="collide_disabled", params={}))
    for prior in (0, 1):
        out.append(dict(func="wait_threads", params=dict(prior=prior)))
        # the same with one (thorough: two) preemption(s) placed at any source line of canopen code
        out.append(dict(func="wait_threads", params=dict(prior=prior, preempt=1), weight=60))
        if tier == "thorough":
            out.append(dict(func="wait_threads", params=dict(prior=prior, preempt=2), weight=500))
    if tier == "thorough":
        out.append(dict(func="two_readers", params=dict(preempt=1), weight=4000))
    for k in (1, 2):
        out.append(dict(func="sequence", params=dict(k=k), weight=10 ** k))
    if tier == "thorough":
        for s0 in range(3):
            for s1 in range(3):
                out.append(dict(func="sequence", params=dict(k=3, s0=s0, s1=s1), weight=1000))
    return out


META = dict(
    level_text="Bounded symbolic execution of PdoMap.on_message/transmit/remote_request/subscribe/add_callback/"
               "wait_for_reception, PdoBase/PdoMap.__getitem__ and PdoVariable over two nodes (LocalNode producer, "
               "RemoteNode consumer) joined by a loopback: all mapped values, the COB-ID, the frame timestamp, foreign "
               "frame ids and contents are symbolic; four layouts including sub-byte and straddling fields; maps with "
               "distinct and colliding COB-IDs (aliasing decided by the solver); waits under a condition-variable "
               "model.",
    level_note="Delivery is synchronous or happens inside the waiter's wake-up (message granularity); a real second "
               "thread is outside. Relies on the C05 field semantics (proved separately for every offset).",
    bounds=dict(quick="layouts: suite (16+4+4+32+1+1), byte-aligned, straddling, odd-width; COB-IDs symbolic 11 bit; "
                      "sequences of k<=2 steps over {set+transmit, foreign frame, reconfigure}; wait with delivery / foreign "
                      "delivery / none; remote request for all flag combinations",
                thorough="sequences k<=3"),
    outside_bounds=["reception from a real second thread", "frames whose length differs from the map's", "29-bit COB-IDs "
                    "for PDO maps in this harness (frame format is C10's business)"],
    assumptions=["producer and consumer are configured with the same mapping by the harness"],
    stubs=["struct", "threading.Condition", "Network.send_message replaced by a loopback", "logging"],
    required_reach=["remapped", "short-then-full", "transmit-twice", "named", "from-od", "rtr-saved", "two-readers", "two-readers-parked", "roundtrip", "collide-hit", "collide-miss", "collide-both", "wait-hit", "wait-timeout", "threads-woken", "threads-timeout", "rtr-sent",
                    "rtr-suppressed", "rtr-od-sent", "rtr-od-suppressed", "collide-disabled", "seq-transmit", "seq-foreign", "seq-reconfigure", "sequence"],
    limits=dict(quick=dict(max_decisions=20000), thorough=dict(max_decisions=50000)),
    validate_every=dict(quick=5, thorough=31),
    max_validate=dict(quick=50, thorough=50),
)
