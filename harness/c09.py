"""C09 - Saving a PDO configuration follows the safe procedure and reads back identically."""
from symx import api as sx
from harness import common as C
from refmodels.pdo_device import PdoDevice, VALID_BIT
from refmodels import cia301 as S301

CLAIMED = True

RTR_BIT = 1 << 30
# pool of mappable objects: (index, sub, own bit length, custom length allowed)
POOL = [
    (C.TYPE_INDEX[0x06], 0, 16, False),   # UNSIGNED16
    (C.TYPE_INDEX[0x05], 0, 8, True),     # UNSIGNED8 (sub-byte lengths allowed)
    (C.TYPE_INDEX[0x02], 0, 8, True),     # INTEGER8
    (C.TYPE_INDEX[0x01], 0, 8, True),     # BOOLEAN
    (0x2100, 2, 16, False),               # record member
    (C.TYPE_INDEX[0x03], 0, 16, False),   # INTEGER16
    (C.TYPE_INDEX[0x10], 0, 24, False),   # INTEGER24
    (0x2100, 1, 8, True),
]


def _od(kind, pdo_no, subs, with_values=None):
    od = C.typed_od(with_pdo=False)
    od.add_object(C.mkrecord("rec", 0x2100, [C.mkvar("n", 0x2100, 0, C.U8, "ro", default=2),
                                             C.mkvar("m1", 0x2100, 1, C.U8, "rw"),
                                             C.mkvar("m2", 0x2100, 2, C.U16, "rw")]))
    base_c, base_m = (0x1400, 0x1600) if kind == "rpdo" else (0x1800, 0x1A00)
    ci, mi = base_c + pdo_no - 1, base_m + pdo_no - 1
    od.add_object(C.pdo_comm_record(ci, "comm", subs))
    if MAPARR["on"]:
        # the mapping parameter described as an ARRAY that lists only sub-index 0 and 1 (CompactSubObj style): the
        # other entries exist all the same, the dictionary creates them on demand
        od.add_object(C.mkarray("map", mi, [C.mkvar("Number of mapped objects", mi, 0, C.U8, "rw"),
                                            C.mkvar("Mapping entry", mi, 1, C.U32, "rw")]))
    else:
        od.add_object(C.pdo_map_array(mi, "map"))
    return od, ci, mi


MAPARR = {"on": False}


def _rig(kind, pdo_no, subs, dev=None):
    netmod = sx.mod("canopen.network")
    E = sx.mod("canopen.sdo.exceptions")
    od, ci, mi = _od(kind, pdo_no, subs)
    net = netmod.Network()
    net.send_message = lambda *a, **k: None
    node = sx.mod("canopen.node.remote").RemoteNode(3, od)
    net.add_node(node)
    if dev is None:
        dev = PdoDevice(ci, mi, subs)
    dev.abort_cls = E.SdoAbortedError
    node.sdo.upload = dev.upload
    node.sdo.download = dev.download
    m = (node.rpdo if kind == "rpdo" else node.tpdo)[pdo_no]
    return net, node, dev, m, ci, mi


WIDE = {"i64": [(C.TYPE_INDEX[0x15], 0, 64, False)],
        "u32x2": [(C.TYPE_INDEX[0x07], 0, 32, False), (C.TYPE_INDEX[0x04], 0, 32, False)],
        "r64": [(C.TYPE_INDEX[0x11], 0, 64, False)]}


def save_read(kind, pdo_no, k, subs, dev_start, custom, wide=None, maparr=False):
    subs = tuple(subs)
    MAPARR["on"] = bool(maparr)
    if maparr:
        sx.reach("map-array")
    net, node, dev, m, ci, mi = _rig(kind, pdo_no, subs)
    if dev_start == "enabled-other":
        # the device starts enabled with a different mapping
        dev.com[1] = 0x333
        dev.com[2] = 1
        dev.map[0] = 2
        dev.map[1] = (POOL[0][0] << 16) | 16
        dev.map[2] = (POOL[1][0] << 16) | 8
    # ---- the configuration, all symbolic
    cob = sx.fresh_int("cob", 1, 0x1FFFFFFF)
    enabled = bool(sx.choice(2, "enabled"))
    rtr = bool(sx.choice(2, "rtr"))
    tt = sx.fresh_int("tt", 0, 255)
    m.cob_id = cob
    m.enabled = enabled
    m.rtr_allowed = rtr
    m.trans_type = tt
    inhibit = event = sync0 = None
    if 3 in subs:
        inhibit = sx.fresh_int("inhibit", 0, 0xFFFF)
        m.inhibit_time = inhibit
    if 5 in subs:
        event = sx.fresh_int("event", 0, 0xFFFF)
        m.event_timer = event
    if 6 in subs:
        sync0 = sx.fresh_int("sync0", 0, 0xFF)
        m.sync_start_value = sync0
    m.clear()
    entries = []
    total = 0
    pool = WIDE[wide] if wide else POOL
    for i in range(k):
        idx, sub, own, cust = pool[i % len(pool)]
        if cust and custom:
            ln = sx.fresh_int("len%d" % i, 1, 8)
            m.add_variable(idx, sub, ln)
        else:
            ln = own
            m.add_variable(idx, sub)
        entries.append((idx, sub, ln, total))
        total = total + ln
    tag = "C09/save"
    try:
        m.save()
    except Exception as e:
        sx.observe("exc", C.exc_name(e))
        sx.fail("save() raised %s" % C.exc_name(e), tag + "/raises")
        return
    log = dev.log
    sx.observe("log", [(i, s, v) for i, s, v in log])
    sx.prove(len(dev.refused) == 0, "a strict device refused a write: %r" % ([r[3] for r in dev.refused],),
             tag + "/refused-by-device")
    nolog = len(log) == 0
    sx.prove(not nolog, "nothing written", tag + "/empty")
    if nolog:
        return
    flags = 0 if rtr else RTR_BIT
    # 1. invalidated first
    sx.prove(log[0][0] == ci and log[0][1] == 1 and (log[0][2] == (cob | VALID_BIT | flags)) is not False,
             "first write must invalidate the PDO", tag + "/first-write")
    sx.prove(log[0][2] == (cob | VALID_BIT | flags), "first write = COB-ID | bit31 | no-RTR flag", tag + "/first-value")
    # 2. communication parameters
    def last_value(index, sub):
        vals = [v for i, s, v in log if i == index and s == sub]
        return vals[-1] if vals else None
    sx.prove(last_value(ci, 2) is not None and (last_value(ci, 2) == tt) is not False, "transmission type written",
             tag + "/trans-type-missing")
    if last_value(ci, 2) is not None:
        sx.prove(last_value(ci, 2) == tt, "transmission type value", tag + "/trans-type")
    for s, val, nm in ((3, inhibit, "inhibit"), (5, event, "event"), (6, sync0, "sync-start")):
        if val is not None:
            lv = last_value(ci, s)
            sx.prove(lv is not None, "%s not written" % nm, tag + "/%s-missing" % nm)
            if lv is not None:
                sx.prove(lv == val, "%s value" % nm, tag + "/%s" % nm)
    # 3. mapping: count 0, entries 1..k, count k  (in that order)
    mw = [(pos, s, v) for pos, (i, s, v) in enumerate(log) if i == mi]
    want_subs = [0] + list(range(1, k + 1)) + [0]
    sx.prove([s for p, s, v in mw] == want_subs, "mapping writes: count:=0, entries in order, count:=k",
             tag + "/mapping-order")
    if [s for p, s, v in mw] == want_subs:
        sx.prove(mw[0][2] == 0, "count zeroed before the entries", tag + "/count-zero")
        sx.prove(mw[-1][2] == k, "count set after the entries", tag + "/count-final")
        for j, (idx, sub, ln, off) in enumerate(entries):
            sx.prove(mw[1 + j][2] == ((idx << 16) | (sub << 8) | ln), "mapping entry = index<<16 | sub<<8 | length",
                     tag + "/entry")
        sx.prove(all(p > 0 for p, s, v in mw), "mapping written before the PDO was invalidated", tag + "/map-before-invalid")
    # 4. validated last and only if enabled
    last = log[-1]
    if enabled:
        sx.prove(last[0] == ci and last[1] == 1, "PDO must be validated last", tag + "/last-write")
        if last[0] == ci and last[1] == 1:
            sx.prove(last[2] == (cob | flags), "final COB-ID write validates with the right flags", tag + "/last-value")
        sx.reach("save-enabled")
    else:
        cobw = [v for i, s, v in log if i == ci and s == 1]
        sx.prove(len(cobw) == 1, "a disabled PDO must stay invalid", tag + "/disabled-validated")
        sx.reach("save-disabled")
    sx.prove(sx.ite_bool(True, dev.valid() == enabled, True) if sx.is_symbolic(dev.valid()) else dev.valid() == enabled,
             "device valid exactly when enabled", tag + "/device-valid")
    # ---- read back into a fresh node object
    net2, node2, _, m2, _, _ = _rig(kind, pdo_no, subs, dev)
    tag = "C09/read"
    try:
        m2.read()
    except Exception as e:
        sx.observe("exc", C.exc_name(e))
        sx.fail("read() raised %s" % C.exc_name(e), tag + "/raises")
        return
    sx.observe("read", [m2.cob_id, m2.enabled, m2.rtr_allowed, m2.trans_type])
    sx.prove(m2.cob_id == cob, "COB-ID read back", tag + "/cob-id")
    sx.prove(bool(m2.enabled) == enabled, "valid flag read back", tag + "/enabled")
    sx.prove(bool(m2.rtr_allowed) == rtr, "RTR flag read back", tag + "/rtr")
    sx.prove(m2.trans_type == tt, "transmission type read back", tag + "/trans-type")
    if bool(tt >= 254):
        sx.reach("event-driven")
        for s, val, attr in ((3, inhibit, "inhibit_time"), (5, event, "event_timer"), (6, sync0, "sync_start_value")):
            if val is not None:
                sx.prove(getattr(m2, attr) == val, "%s read back" % attr, tag + "/" + attr)
    sx.prove(len(m2.map) == k, "number of mapped objects read back", tag + "/map-count")
    if len(m2.map) == k:
        for v2, (idx, sub, ln, off) in zip(m2.map, entries):
            sx.prove((v2.index == idx) & (v2.subindex == sub) & (v2.length == ln) & (v2.offset == off),
                     "mapped object (index, sub, length, offset) read back", tag + "/map-entry")
    subscribed = any(cb == m2.on_message for cb in (net2.subscribers.get(cob) or []))
    sx.prove(bool(subscribed) == enabled, "subscribed to the COB-ID exactly when enabled", tag + "/subscribed")
    total_bits = sum(ln for idx, sub, ln, off in entries) if entries else 0
    sx.prove(8 * len(m2.data) >= total_bits and 8 * len(m2.data) < total_bits + 8, "frame buffer sized for the mapping",
             tag + "/data-size")
    # reading the same configuration once more changes nothing (the layout does not accumulate)
    try:
        m2.read()
    except Exception as e:
        sx.observe("exc", C.exc_name(e))
        sx.fail("second read() raised %s" % C.exc_name(e), tag + "/reread-raises")
        return
    sx.prove(len(m2.map) == k, "number of mapped objects after a second read()", tag + "/reread-count")
    _resave(m, dev, ci, mi, k, entries, cob, enabled)
    if len(m2.map) == k:
        for v2, (idx, sub, ln, off) in zip(m2.map, entries):
            sx.prove((v2.index == idx) & (v2.subindex == sub) & (v2.length == ln) & (v2.offset == off),
                     "mapped object after a second read()", tag + "/reread-entry")
    sx.prove(8 * len(m2.data) >= total_bits and 8 * len(m2.data) < total_bits + 8,
             "frame buffer after a second read()", tag + "/reread-data-size")
    sx.reach("read-back")


def _resave(m, dev, ci, mi, k, entries, cob, enabled):
    """'every prior state of the device': the device loses the configuration behind the node's back (power cycle to
    an enabled factory mapping) and the same, unedited map object is saved again - the whole procedure runs again
    and the device ends up configured"""
    if k >= 2:
        # before that, a save() that the device turns down (it refuses writes to the mapping object in its present
        # state, e.g. OPERATIONAL): whether that call raises is not the point here; the later save() has to run the
        # whole procedure again (k >= 2: the device's own count never exceeds the map's, so the library's work-around
        # for fixed-length mapping arrays has nothing to pad)
        dev.com[1] = 0x333 | (1 << 31)
        dev.map[0] = 2
        dev.busy = True
        try:
            m.save()
        except Exception as e:          # noqa: BLE001
            sx.observe("busy_exc", C.exc_name(e))
        dev.busy = False
        del dev.refused[:]
        sx.reach("resave-after-refusal")
    dev.com[1] = 0x333
    dev.map[0] = 2
    dev.map[1] = (POOL[0][0] << 16) | 16
    dev.map[2] = (POOL[1][0] << 16) | 8
    n0 = len(dev.log)
    tag = "C09/resave"
    try:
        m.save()
    except Exception as e:
        sx.observe("exc", C.exc_name(e))
        sx.fail("second save() raised %s" % C.exc_name(e), tag + "/raises")
        return
    log = dev.log[n0:]
    sx.prove(len(dev.refused) == 0, "a strict device refused a write of the second save()", tag + "/refused-by-device")
    mw = [(s_, v) for i, s_, v in log if i == mi]
    sx.prove([s_ for s_, v in mw] == [0] + list(range(1, k + 1)) + [0], "second save() writes the mapping again, in order",
             tag + "/mapping-order")
    sx.prove(bool(dev.map[0] == k) and all(bool(dev.map[1 + j] == ((idx << 16) | (sub << 8) | ln))
                                          for j, (idx, sub, ln, off) in enumerate(entries)),
             "device holds the configured mapping after the second save()", tag + "/device-mapping")
    sx.prove(bool(dev.valid()) == enabled, "device valid exactly when enabled after the second save()", tag + "/device-valid")
    sx.reach("resave")


def read_from_od(kind, source):
    """configuration taken from the dictionary: DCF value, else default"""
    subs = (1, 2, 3, 5, 6)
    od, ci, mi = _od(kind, 1, subs)
    cobword = sx.fresh_int("cobword", 0, 0xFFFFFFFF)
    other = sx.fresh_int("other", 0, 0xFFFFFFFF)
    tt = sx.fresh_int("tt", 0, 255)
    com, mp = od[ci], od[mi]
    if source == "value":
        com[1].value, com[1].default = cobword, other
    else:
        com[1].default = cobword
    com[2].default = tt
    com[3].default, com[5].default, com[6].default = 11, 22, 3
    mp[0].default = 2
    mp[1].default = (POOL[0][0] << 16) | 16
    mp[2].value = (POOL[1][0] << 16) | 8
    mp[2].default = 0
    netmod = sx.mod("canopen.network")
    net = netmod.Network()
    net.send_message = lambda *a, **k: None
    node = sx.mod("canopen.node.remote").RemoteNode(3, od)
    net.add_node(node)
    node.sdo.upload = lambda *a: (_ for _ in ()).throw(AssertionError("SDO used although from_od=True"))
    m = (node.rpdo if kind == "rpdo" else node.tpdo)[1]
    m.read(from_od=True)
    tag = "C09/from-od"
    sx.prove(m.cob_id == (cobword & 0x1FFFFFFF), "COB-ID from the dictionary", tag + "/cob-id")
    sx.prove(m.enabled == ((cobword & VALID_BIT) == 0), "valid flag from the dictionary", tag + "/enabled")
    sx.prove(m.rtr_allowed == ((cobword & RTR_BIT) == 0), "RTR flag from the dictionary", tag + "/rtr")
    sx.prove(m.trans_type == tt, "transmission type", tag + "/trans-type")
    sx.prove(len(m.map) == 2 and m.map[0].index == POOL[0][0] and m.map[1].index == POOL[1][0]
             and m.map[1].offset == 16, "mapping from the dictionary (DCF value before default)", tag + "/mapping")
    if bool(tt >= 254):
        sx.prove(m.inhibit_time == 11 and m.event_timer == 22 and m.sync_start_value == 3, "timers", tag + "/timers")
    sx.reach("from-od")


class _WholeDevice(PdoDevice):
    """the strict PDO objects plus ordinary objects that accept any write (logged)"""

    def __init__(self, *a, **k):
        PdoDevice.__init__(self, *a, **k)
        self.other = []

    def download(self, index, sub, data, force_segment=False):
        if index in (self.ci, self.mi):
            return PdoDevice.download(self, index, sub, data, force_segment)
        self.other.append((index, sub, sx.le_int(sx.items(data))))


def load_configuration(kind, pdo_no):
    """RemoteNode.load_configuration: the PDO objects go through read(from_od)/save() (safe order), every other
    writable object with a DCF value is downloaded, and nothing touches the PDO objects afterwards."""
    subs = (1, 2, 3, 5, 6)
    od, ci, mi = _od(kind, pdo_no, subs)
    # the PDO of the other direction with the same number exists as well (it does on every real device); it is
    # configured as disabled and without mapping
    oci, omi = (ci + 0x400, mi + 0x400) if kind == "rpdo" else (ci - 0x400, mi - 0x400)
    od.add_object(C.pdo_comm_record(oci, "other comm", subs))
    od.add_object(C.pdo_map_array(omi, "other map"))
    od[oci][1].value = 0x80000000 | 0x3F0
    od[oci][2].value = 255
    od[omi][0].value = 0
    cob = sx.fresh_int("cob", 1, 0x7FF)
    enabled = bool(sx.choice(2, "enabled"))
    tt = sx.fresh_int("tt", 0, 255)
    com, mp = od[ci], od[mi]
    com[1].value = cob | (0 if enabled else VALID_BIT)
    com[2].value = tt
    com[3].value, com[5].value, com[6].value = 11, 22, 3
    mp[0].value = 2
    mp[1].value = (POOL[0][0] << 16) | 16
    mp[2].value = (POOL[1][0] << 16) | 8
    pv = sx.fresh_int("pv", 0, 0xFF)
    od[0x2100][1].value = pv
    od[C.TYPE_INDEX[0x07]].value = 0x12345678
    netmod = sx.mod("canopen.network")
    E = sx.mod("canopen.sdo.exceptions")
    net = netmod.Network()
    net.send_message = lambda *a, **k: None
    node = sx.mod("canopen.node.remote").RemoteNode(3, od)
    net.add_node(node)
    dev = _WholeDevice(ci, mi, subs)
    dev.abort_cls = E.SdoAbortedError
    dev.com[1] = 0x333                      # the device starts enabled with another mapping
    dev.com[2] = 1
    dev.map[0] = 1
    dev.map[1] = (POOL[2][0] << 16) | 8
    node.sdo.upload = dev.upload
    node.sdo.download = dev.download
    tag = "C09/load-configuration"
    try:
        node.load_configuration()
    except Exception as e:
        sx.observe("exc", C.exc_name(e))
        sx.observe("refused", [r[3] for r in dev.refused])
        sx.fail("load_configuration raised %s" % C.exc_name(e), tag + "/raises")
        return
    sx.observe("log", list(dev.log))
    sx.prove(len(dev.refused) == 0, "a strict device refused a write", tag + "/refused-by-device")
    log = dev.log
    sx.prove(len(log) > 0 and log[0][0] == ci and log[0][1] == 1, "first PDO write is the invalidation", tag + "/first")
    if log:
        sx.prove((log[0][2] & VALID_BIT) != 0, "first PDO write invalidates", tag + "/first-value")
    # count zeroed before entries, set after them
    mlog = [(s_, v) for i, s_, v in log if i == mi]
    sx.prove(len(mlog) >= 4 and mlog[0] == (0, 0) and mlog[-1][0] == 0 and (mlog[-1][1] == 2) is not False,
             "mapping count zeroed first and set last", tag + "/map-order")
    # validated last (only when enabled) and nothing written to the PDO objects afterwards
    if enabled:
        sx.prove(log[-1][0] == ci and log[-1][1] == 1, "PDO validated last", tag + "/validated-last")
        sx.prove(log[-1][2] == cob, "final COB-ID word", tag + "/final-cob")
        sx.prove(bool(dev.valid()), "PDO valid at the end", tag + "/valid")
    else:
        sx.prove(not bool(dev.valid()), "disabled PDO must stay invalid", tag + "/stays-invalid")
    ncob = len([1 for i, s_, v in log if i == ci and s_ == 1])
    sx.prove(ncob == (2 if enabled else 1), "COB-ID written once to invalidate and once to validate", tag + "/cob-writes")
    sx.prove(dev.map[0] == 2 and dev.map[1] == mp[1].value and dev.map[2] == mp[2].value, "mapping on the device",
             tag + "/mapping")
    sx.prove((dev.com[2] == tt), "transmission type on the device", tag + "/trans-type")
    # every other object with a value was downloaded, none of them is a PDO object
    sx.prove(sx.any_([(i == 0x2100) & (s_ == 1) & (v == pv) for i, s_, v in dev.other]) is not False and
             any(i == C.TYPE_INDEX[0x07] for i, s_, v in dev.other), "ordinary objects downloaded", tag + "/others")
    sx.prove(sx.any_([(i == 0x2100) & (s_ == 1) & (v == pv) for i, s_, v in dev.other]), "member value", tag + "/member")
    sx.prove(all(not (0x1400 <= i < 0x1C00) or i in (oci, omi) for i, s_, v in dev.other),
             "PDO object written by the generic loop", tag + "/pdo-by-generic-loop")
    sx.prove(any(i == oci and s_ == 1 for i, s_, v in dev.other), "the PDO of the other direction was not configured",
             tag + "/other-direction")
    sx.reach("load-configuration")


def predefined():
    """default COB-IDs of the predefined connection set"""
    od = C.typed_od(with_pdo=False)
    for no in range(1, 6):
        od.add_object(C.pdo_comm_record(0x1400 + no - 1, "rc%d" % no))
        od.add_object(C.pdo_map_array(0x1600 + no - 1, "rm%d" % no))
        od.add_object(C.pdo_comm_record(0x1800 + no - 1, "tc%d" % no))
        od.add_object(C.pdo_map_array(0x1A00 + no - 1, "tm%d" % no))
    node = sx.mod("canopen.node.remote").RemoteNode(9, od)
    for no in range(1, 5):
        sx.prove(node.rpdo[no].predefined_cob_id == 0x200 + 0x100 * (no - 1) + 9, "RPDO predefined COB-ID",
                 "C09/predefined/rpdo")
        sx.prove(node.tpdo[no].predefined_cob_id == 0x180 + 0x100 * (no - 1) + 9, "TPDO predefined COB-ID",
                 "C09/predefined/tpdo")
    sx.prove(node.rpdo[5].predefined_cob_id is None and node.tpdo[5].predefined_cob_id is None,
             "no predefined COB-ID beyond PDO 4", "C09/predefined/none")
    sx.reach("predefined")


def jobs(tier):
    out = []
    q = tier == "quick"
    for kind in ("tpdo", "rpdo"):
        for pdo_no in ((1, 512) if q else (1, 2, 4, 5, 512)):
            for k in ((0, 1, 3) if q else range(0, 9)):
                for subs in ((1, 2, 3, 5, 6), (1, 2), (1, 2, 5, 6)) + (() if q else ((1, 2, 3), (1, 2, 3, 6), (1, 2, 6))):
                    for start in ("blank", "enabled-other"):
                        for custom in ((1,) if k else (0,)):
                            out.append(dict(func="save_read", params=dict(kind=kind, pdo_no=pdo_no, k=k, subs=list(subs),
                                                                         dev_start=start, custom=custom), weight=k + 1))
        if q:
            # the upper end of the mapping count (the full 0..8 sweep is in the thorough tier)
            for k in (7, 8):
                out.append(dict(func="save_read", params=dict(kind=kind, pdo_no=1, k=k, subs=[1, 2], dev_start="blank",
                                                             custom=1), weight=k + 1))
        for wide, k in (("i64", 1), ("u32x2", 2), ("r64", 1)):
            out.append(dict(func="save_read", params=dict(kind=kind, pdo_no=1, k=k, subs=[1, 2], dev_start="blank",
                                                         custom=0, wide=wide)))
        for k in (1, 3):
            out.append(dict(func="save_read", params=dict(kind=kind, pdo_no=1, k=k, subs=[1, 2, 3, 5, 6], dev_start="enabled-other",
                                                         custom=1, maparr=True), weight=k + 1))
        for src in ("value", "default"):
            out.append(dict(func="read_from_od", params=dict(kind=kind, source=src)))
    out.append(dict(func="predefined", params={}))
    for kind in ("rpdo", "tpdo"):
        for pdo_no in ((1, 512) if q else (1, 2, 256, 257, 511, 512)):
            out.append(dict(func="load_configuration", params=dict(kind=kind, pdo_no=pdo_no)))
    return out


META = dict(
    level_text="Bounded symbolic execution of PdoMap.save/read/subscribe/clear/add_variable, PdoMaps and the typed "
               "SdoVariable accessors against a strict device model that logs and polices every SDO write: COB-ID "
               "(29 bit), valid/RTR flags, transmission type, inhibit time, event timer, SYNC start value and custom "
               "sub-byte mapping lengths are symbolic; the write log is checked for the CiA 301 order and encodings, then "
               "a fresh node reads the device back and must see the same configuration and subscription.",
    level_note="SDO framing is C01's business: upload/download are replaced on the node's SdoClient instance. Bit 29 of "
               "the COB-ID word (frame format) is not modelled; the library ignores it.",
    bounds=dict(quick="RPDO and TPDO, PDO numbers 1 and 512, k in {0,1,3,7,8} mapped objects, optional sub-entries all present "
                      "/ only 1-2 / 1,2,5,6, device blank or enabled with a different mapping; dictionary-sourced read (DCF value / "
                      "default); predefined COB-IDs for PDO 1..5; RemoteNode.load_configuration for PDO 1 and 512 against the "
                      "strict device together with ordinary objects",
                thorough="PDO numbers 1,2,4,5,512, k = 0..8, four optional-sub-entry variants; load_configuration for PDO 1,2,256,257,511,512"),
    outside_bounds=["devices with a fixed (read-only) mapping count (the library's workaround path)", "curtis_hack",
                    "COB-ID bit 29"],
    assumptions=["strict device rules from CiA 301 7.5.2.35/36 (mapping procedure)"],
    stubs=["struct", "SdoClient.upload/download replaced on the instance", "Network.send_message no-op", "logging"],
    required_reach=["resave-after-refusal", "map-array", "save-enabled", "save-disabled", "read-back", "event-driven", "from-od", "predefined", "load-configuration", "resave"],
    limits=dict(quick=dict(max_decisions=20000), thorough=dict(max_decisions=50000)),
    validate_every=dict(quick=3, thorough=5),
    max_validate=dict(quick=30, thorough=30),
)
