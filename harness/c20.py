"""C20 - Physical, described and bit-field views agree with the raw value."""
from symx import api as sx
from harness import common as C
from refmodels import cia301 as S301

CLAIMED = True

U8, U16, U32, U64, I32, I16, I64, I8 = 0x05, 0x06, 0x07, 0x1B, 0x04, 0x03, 0x15, 0x02
WIDTH = {U8: 8, U16: 16, U32: 32, U64: 64, I32: 32, I16: 16, I64: 64, I8: 8}
SIGNED = {I32, I16, I64, I8}


class SdoCarrier:
    """SdoVariable on a LocalNode: the raw value lives in LocalNode.data_store."""

    def __init__(self, dtype, setup):
        LocalNode = sx.mod("canopen.node.local").LocalNode
        od = C.typed_od(with_pdo=False)
        self.odvar = C.mkvar("target", 0x3000, 0, dtype, "rw")
        setup(self.odvar)
        od.add_object(self.odvar)
        self.node = LocalNode(2, od)
        self.var = self.node.sdo[0x3000]
        self.dtype = dtype

    def set_raw_bytes(self, items):
        self.node.data_store[0x3000] = sx.mod("builtins").dict() if not sx.symbolic() else _symdict()
        self.node.data_store[0x3000][0] = sx.mkbytes(items)

    def raw_bytes(self):
        return sx.items(self.node.data_store[0x3000][0])


def _symdict():
    from symx.symdict import SymDict
    return SymDict()


class PdoCarrier:
    """PdoVariable in a TPDO map: the raw value lives in PdoMap.data."""

    def __init__(self, dtype, setup):
        LocalNode = sx.mod("canopen.node.local").LocalNode
        od = C.typed_od(with_pdo=True)
        self.odvar = C.mkvar("target", 0x3000, 0, dtype, "rw")
        setup(self.odvar)
        od.add_object(self.odvar)
        self.node = LocalNode(2, od)
        m = self.node.tpdo[1]
        m.clear()
        m.add_variable(C.TYPE_INDEX[U8])          # one byte in front
        self.var = m.add_variable(0x3000)
        self.map = m
        self.dtype = dtype

    def set_raw_bytes(self, items):
        for i, b in enumerate(items):
            self.map.data[1 + i] = b

    def raw_bytes(self):
        return sx.items(self.map.data)[1:1 + WIDTH[self.dtype] // 8]


class PdoUnalignedCarrier:
    """PdoVariable mapped behind a 3-bit field (so it is not byte aligned): the raw value lives in bits
    3..3+W of PdoMap.data."""
    SHIFT = 3

    def __init__(self, dtype, setup):
        LocalNode = sx.mod("canopen.node.local").LocalNode
        od = C.typed_od(with_pdo=True)
        self.odvar = C.mkvar("target", 0x3000, 0, dtype, "rw")
        setup(self.odvar)
        od.add_object(self.odvar)
        self.node = LocalNode(2, od)
        m = self.node.tpdo[1]
        m.clear()
        m.add_variable(C.TYPE_INDEX[U8], 0, self.SHIFT)
        self.var = m.add_variable(0x3000)
        self.map = m
        self.dtype = dtype
        assert self.SHIFT + WIDTH[dtype] <= 64

    def set_raw_bytes(self, items):
        w = WIDTH[self.dtype]
        v = sx.le_int(items, False)
        n = len(self.map.data)
        old = sx.le_int(sx.items(self.map.data), False)
        new = (old & ~(((1 << w) - 1) << self.SHIFT)) | (v << self.SHIFT)
        for i in range(n):
            self.map.data[i] = sx.byte_of(new, i)

    def raw_bytes(self):
        w = WIDTH[self.dtype]
        fi = sx.le_int(sx.items(self.map.data), False)
        v = (fi >> self.SHIFT) & ((1 << w) - 1)
        return [sx.byte_of(v, i) for i in range(w // 8)]


CARRIERS = {"sdo": SdoCarrier, "pdo": PdoCarrier, "pdou": PdoUnalignedCarrier}


def _fresh_raw(dtype):
    n = WIDTH[dtype] // 8
    b = sx.fresh_bytes("raw", n)
    return b, sx.le_int(sx.items(b), dtype in SIGNED)


def bits(carrier, dtype, spelling):
    """assigning to / reading a bit field lo..hi changes / returns exactly those bits"""
    w = min(WIDTH[dtype], 32)
    top = w - 1                                          # includes the sign bit of signed types up to 32 bits
    lo = sx.choice(top + 1, "lo")
    hi = lo if spelling == "int" else lo + sx.choice(top + 1 - lo, "hi")
    n = hi - lo + 1
    blist = list(range(lo, hi + 1))
    # a bit list names a set of bits: its order does not matter (lists and definitions written MSB first are common)
    dlist = blist[::-1] if spelling.endswith("-desc") else blist
    # a name may consist of digits only ("0".."7" for nibbles or ports): it is still a name
    fname = {"name-digit": str((lo + 3) % 8)}.get(spelling, "FIELD")
    car = CARRIERS[carrier](dtype, lambda v: v.add_bit_definition(fname, dlist))
    if spelling == "int":
        key = lo
    elif spelling in ("list", "list-desc"):
        key = dlist
    elif spelling == "slice":
        key = slice(lo, hi + 1)
    elif spelling == "slice1":
        key = slice(lo, hi + 1, 1)
    else:
        key = fname
    rb, raw = _fresh_raw(dtype)
    car.set_raw_bytes(sx.items(rb))
    tag = "C20/bits/%s/%s" % (carrier, spelling)
    mask = (1 << n) - 1
    try:
        got = car.var.bits[key]
    except Exception as e:
        sx.observe("exc", C.exc_name(e))
        sx.fail("reading a bit field raised %s" % C.exc_name(e), tag + "/read-raises")
        return
    sx.observe("got", got)
    sx.prove(got == ((raw >> lo) & mask), "bit field read", tag + "/read")
    # the value changes by another route (a download, a received PDO) before the bit assignment
    rb, raw = _fresh_raw(dtype)
    car.set_raw_bytes(sx.items(rb))
    fv = sx.fresh_int("fv", 0, mask)
    try:
        car.var.bits[key] = fv
    except Exception as e:
        sx.observe("exc", C.exc_name(e))
        sx.fail("writing a bit field raised %s" % C.exc_name(e), tag + "/write-raises")
        return
    new = sx.le_int(car.raw_bytes(), dtype in SIGNED)
    sx.observe("new", new)
    full = (1 << WIDTH[dtype]) - 1
    sx.prove((new & full) == (((raw & full) & ~(mask << lo)) | (fv << lo)), "exactly the field's bits change",
             tag + "/write")
    sx.prove(car.var.bits[key] == fv, "bit field reads back", tag + "/readback")
    if spelling == "name" and lo > 0:
        # the definitions are a public table: after an in-place edit the name means the new bits
        car.odvar.bit_definitions["FIELD"] = [0]
        rb2, raw2 = _fresh_raw(dtype)
        car.set_raw_bytes(sx.items(rb2))
        sx.prove(car.var.bits["FIELD"] == (raw2 & 1), "name read through the current definition", tag + "/redefined-read")
        nb = sx.fresh_int("nb", 0, 1)
        car.var.bits["FIELD"] = nb
        new2 = sx.le_int(car.raw_bytes(), dtype in SIGNED)
        sx.prove((new2 & full) == (((raw2 & full) & ~1) | nb), "name written through the current definition",
                 tag + "/redefined-write")
        sx.reach("bits-redefined")
    sx.reach("bits")


def bits_kept(carrier, dtype):
    """one accessor object (b = var.bits) used for several operations: two writes to disjoint fields accumulate,
    and reads through the same accessor return what was written"""
    w = min(WIDTH[dtype], 32)
    top = w - 1
    split = 1 + sx.choice(top, "split")          # field 1 = bits 0..split-1, field 2 = bits split..top
    rb, raw = _fresh_raw(dtype)
    car = CARRIERS[carrier](dtype, lambda v: None)
    car.set_raw_bytes(sx.items(rb))
    tag = "C20/bits-kept/%s" % carrier
    b = car.var.bits
    k1, k2 = slice(0, split), slice(split, top + 1)
    m1, m2 = (1 << split) - 1, (1 << (top + 1 - split)) - 1
    v1 = sx.fresh_int("v1", 0, m1)
    v2 = sx.fresh_int("v2", 0, m2)
    try:
        b[k1] = v1
        r1 = b[k1]
        b[k2] = v2
        r2, r1b = b[k2], b[k1]
    except Exception as e:
        sx.observe("exc", C.exc_name(e))
        sx.fail("kept bit accessor raised %s" % C.exc_name(e), tag + "/raises")
        return
    new = sx.le_int(car.raw_bytes(), dtype in SIGNED)
    full = (1 << WIDTH[dtype]) - 1
    sx.observe("new", new)
    keep = (raw & full) & ~((m1) | (m2 << split))
    sx.prove((new & full) == (keep | v1 | (v2 << split)), "both fields written, nothing else changed", tag + "/write")
    sx.prove((r1 == v1) & (r1b == v1) & (r2 == v2), "reads through the same accessor", tag + "/readback")
    sx.reach("bits-kept")


def desc(carrier, dtype, m):
    """setting a description writes the value it names; reading returns the description of the
    current raw value; a raw value outside the table raises"""
    ODError = sx.mod("canopen.objectdictionary").ObjectDictionaryError
    lo, hi = (-(1 << (WIDTH[dtype] - 1)), (1 << (WIDTH[dtype] - 1)) - 1) if dtype in SIGNED \
        else (0, (1 << WIDTH[dtype]) - 1)
    keys = [sx.fresh_int("key%d" % i, lo, hi) for i in range(m)]
    for i in range(m):
        for j in range(i):
            sx.assume(keys[i] != keys[j])
    # names that differ only in case or surrounding blanks are different descriptions
    tricky = ["mW", "MW", " MW", "mW ", "Speed Mode", "speed mode", "Speed  Mode", "0", "1", "ON", "on", "Off"]
    # ... mixed with names that share a long prefix
    texts = [tricky[(i // 4) * 2 + i % 2] if i % 4 < 2 and (i // 4) * 2 + i % 2 < len(tricky) else "state %d" % i
             for i in range(m)]
    if m >= 4:
        texts[3] = ""               # an empty description is a description too

    def setup(v):
        for k, t in zip(keys, texts):
            v.add_value_description(k, t)
    car = CARRIERS[carrier](dtype, setup)
    tag = "C20/desc/%s" % carrier
    # write by description
    i = sx.choice(m, "which")
    car.set_raw_bytes([0] * (WIDTH[dtype] // 8))
    car.var.desc = texts[i]
    new = sx.le_int(car.raw_bytes(), dtype in SIGNED)
    sx.observe("new", new)
    sx.prove(new == keys[i], "description writes the value it names", tag + "/write")
    # unknown description is rejected
    for unknown in ["no such text"] + [t for t in (texts[0].upper() + "x", texts[0].swapcase(), texts[0] + " ", " " + texts[0],
                                                   texts[-1].lower(), texts[-1].upper()) if t not in texts]:
        try:
            car.var.desc = unknown
            sx.fail("unknown description %r accepted" % unknown, tag + "/unknown-accepted")
        except ValueError:
            pass
    # the table is a public attribute: edited in place between two uses, the current table counts
    if m >= 2:
        vd = car.odvar.value_descriptions
        vd[keys[0]], vd[keys[1]] = texts[1], texts[0]           # swap two names
        car.var.desc = texts[0]
        new = sx.le_int(car.raw_bytes(), dtype in SIGNED)
        sx.prove(new == keys[1], "description written from the current table (after an in-place edit)",
                 tag + "/write-after-edit")
        vd[keys[0]], vd[keys[1]] = texts[0], texts[1]           # and back
        sx.reach("desc-edited")
    # read for an arbitrary raw value
    rb, raw = _fresh_raw(dtype)
    car.set_raw_bytes(sx.items(rb))
    try:
        got = car.var.desc
    except ODError:
        sx.observe("exc", "ObjectDictionaryError")
        sx.prove(sx.all_([raw != k for k in keys]), "described value rejected", tag + "/read-rejected")
        sx.reach("desc-outside")
        return
    sx.observe("got", got)
    j = texts.index(got) if got in texts else -1
    sx.prove(j >= 0 and (raw == keys[j]) if j >= 0 else False, "description of the current value", tag + "/read")
    sx.reach("desc")


def phys(carrier, factor, kind, R=31):
    """raw = nearest integer of value/factor; read-back within half a step (tolerance 2^-20 of a
    step for the float64 quotient, stated in DESIGN.md).  The scaling kernel is decided at unit
    level in the FP theory; the accessor/carrier path is then shown to store exactly that integer
    and to read back raw*factor."""
    big = I32 if carrier == "pdou" else I64          # the unaligned PDO carrier has 61 bits of room
    car = CARRIERS[carrier](big, lambda v: setattr(v, "factor", factor))
    odv = car.odvar
    car.set_raw_bytes([0] * (WIDTH[big] // 8))
    tag = "C20/phys/%s/%s/%r" % (carrier, kind, factor)
    af = abs(float(factor))
    lim = (1 << R) - 2
    if kind == "int":
        x = sx.fresh_int("x", -lim * abs(int(factor)), lim * abs(int(factor)))
        tol = af * 0.5                      # all quantities are integers below 2^53: exact in float64
    else:
        x = sx.fresh_float("x")
        sx.assume(sx.not_(sx.fisnan(x)))
        sx.assume((x <= lim * af) & (x >= -lim * af))
        tol = af * (0.5 + 2.0 ** -20)
    raw_u = odv.encode_phys(x)
    err = raw_u * float(factor) - x
    sx.prove((err <= tol) & (err >= -tol), "raw is the nearest integer of x/factor", tag + "/nearest")
    if kind == "float":
        back_u = odv.decode_phys(raw_u)
        diff = back_u - x
        sx.prove((diff <= tol) & (diff >= -tol), "read-back within half a step", tag + "/readback")
    # through the accessor: exactly that integer is stored
    car.var.phys = x
    raw_c = sx.le_int(car.raw_bytes(), True)
    sx.observe("raw", raw_c)
    sx.prove(raw_c == raw_u, "accessor stores the scaled integer", tag + "/stored")
    # and an arbitrary stored integer reads back as raw*factor
    k = sx.fresh_int("k", -lim, lim)
    car.set_raw_bytes([sx.byte_of(k, i) for i in range(8)])
    back = car.var.phys
    sx.observe("back", back)
    sx.prove(back == k * factor, "accessor reads raw*factor", tag + "/scaled-read")
    sx.reach("phys-" + kind)


def phys_large(factor):
    """integer request on a 64-bit variable over the whole 2^62 range: raw must still be the nearest
    integer of x/factor (exact integer obligation)"""
    car = SdoCarrier(I64, lambda v: setattr(v, "factor", factor))
    car.set_raw_bytes([0] * 8)
    f = int(factor)
    x = sx.fresh_int("x", -(1 << 61), 1 << 61)
    car.var.phys = x
    raw = sx.le_int(car.raw_bytes(), True)
    sx.observe("raw", raw)
    d = raw * f - x
    sx.prove((2 * d <= abs(f)) & (2 * d >= -abs(f)), "raw is the nearest integer of x/factor (64-bit range)",
             "C20/phys-large/int-exact/factor%d" % f)
    sx.reach("phys-large")


def phys_samples(carrier, factor, limits=False):
    """magnitudes the FP queries do not reach: concrete raw values and requests for this factor.  limits: the entry
    also carries LowLimit/HighLimit (raw counts, advisory): scaling is the same"""
    big = I32 if carrier == "pdou" else I64

    def cfg(v):
        v.factor = factor
        if limits:
            v.min, v.max = 100, 300
            sx.reach("phys-limits")
    car = CARRIERS[carrier](big, cfg)
    af = abs(factor)
    tol = af * (0.5 + 2.0 ** -20)
    tag = "C20/phys-samples/%s/%r" % (carrier, factor)
    for raw in (0, 1, -1, 2, 3, 7, -12, 100, 999, 12345, -54321, 2 ** 20 + 1, 2 ** 31 - 2, -(2 ** 31)):
        car.set_raw_bytes([sx.byte_of(raw, i) for i in range(WIDTH[big] // 8)])
        back = car.var.phys
        sx.prove(back == raw * factor, "phys is raw * factor (sample %d)" % raw, tag + "/read")
        x = raw * factor + 0.25 * factor
        car.var.phys = x
        got = sx.le_int(car.raw_bytes(), True)
        err = got * factor - x
        sx.prove(-tol <= err <= tol, "raw is the nearest integer (sample %d)" % raw, tag + "/nearest")
        rb = car.var.phys - x
        sx.prove(-tol <= rb <= tol, "read-back within half a step (sample %d)" % raw, tag + "/readback")
    sx.reach("phys-samples")


def phys_passthrough():
    """non-integer types are not scaled"""
    car = SdoCarrier(S301.REAL32, lambda v: setattr(v, "factor", 10))
    car.set_raw_bytes([0, 0, 0x80, 0x3F])
    sx.prove(car.var.phys == 1.0, "REAL values are not scaled", "C20/phys/real-passthrough")
    sx.reach("phys-real")


# (factor, kind, R): |raw| < 2^R.  Division by a power of two is exact and cheap for the solver (full
# 31-bit range); for other factors the float64 divider has to be bit-blasted and only small raw ranges
# finish (measured: 0.1 at R=4 80 s, R=10 190 s, R=31 > 300 s).
PHYS_Q = [(1, "float", 31), (1.0, "float", 31), (0.5, "float", 31), (2.0, "float", 31), (-0.25, "float", 31), (1, "int", 31), (2, "int", 31),
          (-4, "int", 31), (-1, "int", 31), (1000.0, "float", 4), (3.0, "float", 4), (10, "int", 4), (-3, "int", 4)]
PHYS_T = PHYS_Q + [(0.1, "float", 10), (0.001, "float", 4), (3, "int", 10), (1000, "int", 6), (0.3, "float", 4),
                   (1000.0, "float", 16), (-3.0, "float", 4), (7, "int", 6), (0.125, "float", 31),
                   (1024.0, "float", 31), (-8, "int", 31), (12345.678, "float", 4), (1e-6, "float", 4)]


def jobs(tier):
    out = []
    for carrier in ("sdo", "pdo"):
        for dtype in (U8, U16, U32, I32, I8) + ((U64, I16) if tier == "thorough" else ()):
            for sp in ("int", "list", "slice", "slice1", "name", "list-desc", "name-desc", "name-digit"):
                if (sp.endswith("-desc") or sp == "name-digit") and dtype not in (U8, U32):
                    continue
                out.append(dict(func="bits", params=dict(carrier=carrier, dtype=dtype, spelling=sp),
                                weight=WIDTH[dtype]))
        for dtype in (U8, U32, I32) if tier == "quick" else (U8, U16, U32, I32, I16):
            out.append(dict(func="bits_kept", params=dict(carrier=carrier, dtype=dtype), weight=WIDTH[dtype]))
        for dtype in (U8, U16, I32):
            for m in ((1, 4) if tier == "quick" else (1, 2, 3, 4, 8, 20)):
                out.append(dict(func="desc", params=dict(carrier=carrier, dtype=dtype, m=m), weight=m))
    # the same views over a PDO variable that is not byte aligned (signed types: the most negative value matters)
    for dtype in (I8, I16, I32, U16) if tier == "quick" else (I8, I16, I32, U8, U16, U32):
        for sp in (("slice", "name") if tier == "quick" else ("int", "list", "slice", "slice1", "name")):
            out.append(dict(func="bits", params=dict(carrier="pdou", dtype=dtype, spelling=sp), weight=WIDTH[dtype]))
        out.append(dict(func="desc", params=dict(carrier="pdou", dtype=dtype, m=4), weight=3))
    out.append(dict(func="phys", params=dict(carrier="pdou", factor=0.5, kind="float", R=31), weight=200,
                    limits=dict(fast_ms=300)))
    out.append(dict(func="phys_samples", params=dict(carrier="pdou", factor=0.1)))
    for f in (0.1, 10, -2.5):
        for carrier in ("sdo", "pdo"):
            out.append(dict(func="phys_samples", params=dict(carrier=carrier, factor=f, limits=True)))
    for f, kind, R in (PHYS_Q if tier == "quick" else PHYS_T):
        for carrier in (("sdo",) if tier == "quick" and R < 31 else ("sdo", "pdo")):
            out.append(dict(func="phys", params=dict(carrier=carrier, factor=f, kind=kind, R=R),
                            weight=1000 if R < 31 else 200, limits=dict(fast_ms=300)))
    for f in (2.5e-7, 1e-9, -3e-8, 1e-6, 0.001, 0.1, 1000.0, 1e6, 123456.789):
        for carrier in ("sdo", "pdo"):
            out.append(dict(func="phys_samples", params=dict(carrier=carrier, factor=f)))
    out.append(dict(func="phys_passthrough", params={}))
    for f in (1, 2):
        out.append(dict(func="phys_large", params=dict(factor=f), limits=dict(fast_ms=300), weight=500))
    return out


META = dict(
    level_text="Bounded symbolic execution of Variable.phys/desc/bits, Bits.__getitem__/__setitem__/_get_bits and "
               "ODVariable.encode/decode_phys/desc/bits over SdoVariable (LocalNode.data_store) and PdoVariable "
               "(PdoMap.data): raw values fully symbolic per type, every contiguous bit range within 32 bits in all "
               "five spellings with a symbolic field value, description tables with symbolic distinct keys, scaling "
               "with a symbolic double (z3 FP64) per concrete factor and an exact integer obligation for integer "
               "factors.",
    level_note="'Half a step' is read with a tolerance of 2^-20 step for the float64 rounding of value/factor (exact "
               "ties in float64 need not be ties in the reals).",
    bounds=dict(quick="bits: UNSIGNED8/16/32, INTEGER32, all ranges lo..hi within the type (<=32 bits), 5 spellings, "
                      "2 carriers; desc: tables of 1 and 3 entries; phys: power-of-two factors 0.5, 2, -0.25 (float "
                      "requests) and 1, 2, -4 (integer requests) with |raw| < 2^31; factors 1000.0, 3.0, 10 with "
                      "|raw| < 2^4", thorough="adds UNSIGNED64/INTEGER16, tables up to 20, 13 more (factor, range) "
                      "pairs up to |raw| < 2^16 for non-power-of-two factors"),
    outside_bounds=["factors outside the listed set", "|value/factor| >= 2^31", "non-power-of-two factors beyond the "
                    "small raw ranges listed (bit-blasting the float64 divider does not finish: 0.1 with |raw|<2^31 "
                    "ran past 300 s in z3 and cvc5)", "bit ranges above bit 31", "non-contiguous bit lists"],
    assumptions=["z3 FP theory for float64 arithmetic"],
    stubs=["struct", "bytes", "dict displays -> SymDict", "logging"],
    required_reach=["phys-limits", "bits", "bits-redefined", "bits-kept", "desc", "desc-edited", "desc-outside", "phys-int", "phys-float", "phys-real", "phys-large", "phys-samples"],
    limits=dict(quick=dict(query_timeout_ms=200000), thorough=dict(query_timeout_ms=900000)),
    validate_every=dict(quick=7, thorough=3),
)
