"""C19 - CiA 402 state decoding and commanded transitions follow the drive state machine."""
from symx import api as sx
from harness import common as C
from refmodels import drive402 as D

CLAIMED = True
I8 = 0x02


def _od():
    return C.typed_od(with_pdo=True, extra=[
        C.mkvar("Controlword", 0x6040, 0, C.U16, "rw"),
        C.mkvar("Statusword", 0x6041, 0, C.U16, "ro"),
        C.mkvar("Modes of operation", 0x6060, 0, I8, "rw"),
        C.mkvar("Modes of operation display", 0x6061, 0, I8, "ro"),
        C.mkvar("Supported drive modes", 0x6502, 0, C.U32, "ro"),
        C.pdo_comm_record(0x1401, "RPDO2 communication parameter"),
        C.pdo_map_array(0x1601, "RPDO2 mapping parameter"),
    ])


def _node():
    return sx.mod("canopen.profiles.p402").BaseNode402(3, _od())


def _le(v, n):
    return sx.mkbytes([sx.byte_of(v, i) for i in range(n)])


def _attach_sdo(node, drive):
    """statusword / controlword / modes carried by SDO: replace upload/download on the instance"""
    def upload(index, subindex):
        if index == 0x6041:
            return _le(drive.statusword(), 2)
        if index == 0x6061:
            return _le(drive.mode, 1)
        if index == 0x6502:
            return _le(drive.supported, 4)
        raise sx.mod("canopen.sdo.exceptions").SdoAbortedError(0x06020000)

    def download(index, subindex, data, force_segment=False):
        items = sx.items(data)
        if index == 0x6040:
            drive.write_controlword(sx.le_int(items))
        elif index == 0x6060:
            v = sx.le_int(items, signed=True)
            drive.mode_writes.append(v)
            drive.mode = v
        else:
            raise sx.mod("canopen.sdo.exceptions").SdoAbortedError(0x06020000)
    node.sdo.upload = upload
    node.sdo.download = download


def _attach_pdo(node, drive, event=False):
    """controlword in RPDO1, statusword in TPDO1.  Synchronous TPDO (default): the library waits for a
    reception and the drive answers every wait with a fresh TPDO.  event=True: event-driven TPDO
    (transmission type 255): the drive sends one whenever its state changes; the library falls back to
    SDO for check_statusword but decodes the state from the last received TPDO."""
    net = sx.mod("canopen.network").Network()
    sent = []

    def send(cid, data, remote=False):
        sent.append((cid, data))
        if cid == 0x203:
            before = drive.state
            drive.write_controlword(sx.le_int(sx.items(data)[0:2]))
            if event and drive.state != before:
                net.notify(0x183, _le(drive.statusword(), 2), sx.env().now)
    net.send_message = send
    net.add_node(node)
    _attach_sdo(node, drive)
    r = node.rpdo[1]
    r.clear()
    r.add_variable(0x6040)
    r.cob_id = 0x203
    r.enabled = True
    t = node.tpdo[1]
    t.clear()
    t.add_variable(0x6041)
    t.cob_id = 0x183
    t.enabled = True
    t.trans_type = 255 if event else 1    # 1: synchronous => "periodic": check_statusword waits for reception
    if event:
        # the RPDO is event-driven as well; its event timer (the drive's deadline monitoring of the master, as read from
        # 0x1400:05) may hold any value: nobody sends an RPDO because of it
        r.trans_type = 255
        r.event_timer = sx.fresh_int("rpdo_event_timer", 0, 0xFFFF)
        r.inhibit_time = sx.fresh_int("rpdo_inhibit", 0, 0xFFFF)
    node.setup_pdos(upload=False)
    if event:
        # automatic transitions are events too: the drive reports them when asked by SDO
        orig = drive.statusword

        def sdo_status():
            before = drive.state
            sw = orig()
            if drive.state != before:
                net.notify(0x183, _le(sw, 2), sx.env().now)
            return sw
        node.sdo.upload = lambda index, subindex, _u=node.sdo.upload: (_le(sdo_status(), 2) if index == 0x6041
                                                                         else _u(index, subindex))
    else:
        def hook(kind, obj):
            if kind == "condition":
                net.notify(0x183, _le(drive.statusword(), 2), sx.env().now)
        sx.env().delivery_hook = hook
    net.notify(0x183, _le(drive.statusword(), 2), 1.0)
    return net


def late_sdo_answer(initial):
    """event-driven statusword TPDO: while the library polls 0x6041 by SDO (check_statusword), the drive faults and its
    TPDO with the new statusword overtakes the SDO answer.  Afterwards the reported state is the one of the newest
    statusword received - the drive's present state - not the older reading."""
    node = _node()
    drive = D.Drive(initial)
    sx.env().tick = 0.02
    net = _attach_pdo(node, drive, event=True)
    inner = node.sdo.upload
    fired = []

    def upload(index, subindex):
        ans = inner(index, subindex)
        if index == 0x6041 and not fired:
            fired.append(1)
            drive._go(D.FAULT)                                   # the answer is under way; now the drive faults
            net.notify(0x183, _le(drive.statusword(), 2), sx.env().now)
        return ans
    node.sdo.upload = upload
    key = "C19/late-sdo-answer/%s" % initial
    try:
        node.check_statusword()
    except Exception as e:
        sx.observe("exc", C.exc_name(e))
    if fired:
        sx.prove(node.state == "FAULT", "the reported state is older than the last statusword received", key + "/state")
        sx.reach("late-sdo-answer")


def decode():
    """every statusword is reported as exactly the state whose pattern it matches, else UNKNOWN"""
    node = _node()
    sw = sx.fresh_int("sw", 0, 0xFFFF)
    node.tpdo_values[0x6041] = sw
    got = node.state
    sx.observe("state", got)
    pats = D.decode_status(sw)
    if got == "UNKNOWN":
        sx.prove(sx.not_(sx.any_([c for n, c in pats])), "matching statusword reported as UNKNOWN",
                 "C19/decode/unknown")
        sx.reach("decode-unknown")
    else:
        cond = [c for n, c in pats if n == got]
        sx.prove(cond[0] if cond else False, "reported state does not match the statusword pattern",
                 "C19/decode/%s" % got)
        sx.reach("decode-" + got)


def _attach_disabled_pdo(node, drive):
    """the drive's PDOs that would carry controlword and statusword exist in the configuration but are switched
    off (COB-ID bit 31): the words travel by SDO, whatever the disabled maps contain"""
    net = sx.mod("canopen.network").Network()
    net.send_message = lambda cid, data, remote=False: None
    net.add_node(node)
    _attach_sdo(node, drive)
    r = node.rpdo[1]
    r.clear()
    r.add_variable(0x6040)
    r.cob_id = 0x203
    r.enabled = False
    t = node.tpdo[1]
    t.clear()
    t.add_variable(0x6041)
    t.cob_id = 0x183
    t.enabled = False
    node.setup_pdos(upload=False)
    return net


def transition(initial, target, transport):
    node = _node()
    drive = D.Drive(initial, auto_delay=sx.choice(3, "auto_delay"), qsa_auto=(transport == "sdo-qsa-auto"))
    sx.env().tick = 0.02
    if transport in ("sdo", "sdo-qsa-auto"):
        _attach_sdo(node, drive)
    elif transport == "pdo-disabled":
        _attach_disabled_pdo(node, drive)
    else:
        _attach_pdo(node, drive, event=(transport == "pdo-event"))
    n0 = len(drive.cw_writes)
    key = "C19/transition/%s->%s/%s" % (initial, target, transport)
    try:
        node.state = target
    except ValueError:
        sx.observe("exc", "ValueError")
        if target in D.COMMANDABLE:
            sx.fail("commandable target refused", key + "/refused")
        else:
            sx.prove(len(drive.cw_writes) == n0, "controlword written for a refused target", key + "/refused-wrote")
            sx.reach("refused")
        _no_enable(drive, initial, target, key)
        return
    except RuntimeError as e:
        sx.observe("exc", "RuntimeError")
        sx.fail("state change timed out: %s" % e, key + "/timeout")
        return
    sx.observe("trace", list(drive.trace))
    if target in D.COMMANDABLE:
        sx.prove(drive.state == target, "drive did not end in the target state", key + "/end-state")
        sx.reach("commanded")
    else:
        # a state that cannot be commanded: returning normally is only legitimate when the drive was
        # observed to be in that state already (nothing commanded)
        sx.prove(drive.state == target and len(drive.cw_writes) == n0,
                 "non-commandable target accepted", key + "/accepted")
        sx.reach("observed-already-there")
    _no_enable(drive, initial, target, key)


def sequence(initial, t1, t2, transport):
    """two assignments in a row on the same node object (history): both must end in their target and
    neither may enable operation unless its target asks for it"""
    node = _node()
    drive = D.Drive(initial, auto_delay=sx.choice(2, "auto_delay"))
    sx.env().tick = 0.02
    if transport == "sdo":
        _attach_sdo(node, drive)
    else:
        _attach_pdo(node, drive)
    key = "C19/sequence/%s->%s->%s/%s" % (initial, t1, t2, transport)
    try:
        node.state = t1
        mid = len(drive.trace)
        sx.prove(drive.state == t1, "first assignment did not end in its target", key + "/first")
        node.state = t2
    except (ValueError, RuntimeError) as e:
        sx.fail("commandable target raised %s" % C.exc_name(e), key + "/raises")
        return
    sx.observe("trace", list(drive.trace))
    sx.prove(drive.state == t2, "second assignment did not end in its target", key + "/second")
    if t1 not in (D.OE, D.QSA):
        sx.prove(D.OE not in drive.trace[1:mid], "operation enabled during the first assignment", key + "/enabled-first")
    if t2 not in (D.OE, D.QSA) and t1 != D.OE:
        sx.prove(D.OE not in drive.trace[mid:], "operation enabled during the second assignment", key + "/enabled-second")
    sx.reach("sequence")


def _no_enable(drive, initial, target, key):
    if target not in (D.OE, D.QSA):
        sx.prove(D.OE not in drive.trace[1:], "operation was enabled on the way to %s" % target,
                 key + "/enabled-operation")


def bad_target(initial, target):
    """a string that is not a commandable state: refused without touching the drive"""
    node = _node()
    drive = D.Drive(initial, auto_delay=0)
    sx.env().tick = 0.02
    _attach_sdo(node, drive)
    key = "C19/bad-target/%s->%s" % (initial, target)
    try:
        node.state = target
    except ValueError:
        sx.observe("exc", "ValueError")
        sx.reach("bad-target-refused")
    except RuntimeError:
        sx.observe("exc", "RuntimeError")
    else:
        sx.fail("invalid target accepted", key + "/accepted")
    sx.observe("trace", list(drive.trace))
    sx.prove(D.OE not in drive.trace[1:], "operation was enabled for an invalid target", key + "/enabled-operation")


def op_mode(mode, described=None):
    """described: the device description (EDS default / DCF value of 0x6502) states some mask of its own - a generic
    family file, a placeholder: what counts is what the connected drive advertises"""
    node = _node()
    drive = D.Drive(D.SOD)
    sx.env().tick = 0.05
    _attach_sdo(node, drive)
    drive.supported = sx.fresh_int("supported", 0, 0xFFFFFFFF)
    if described:
        setattr(node.object_dictionary[0x6502], described, sx.fresh_int("described", 0, 0xFFFFFFFF))
        sx.reach("mode-described")
    code, bit = D.MODES[mode]
    sup = ((drive.supported >> bit) & 1) == 1
    key = "C19/op_mode/%s" % mode
    try:
        node.op_mode = mode
    except Exception as e:
        sx.observe("exc", C.exc_name(e))
        sx.prove(sx.not_(sup), "advertised mode refused", key + "/refused")
        sx.prove(len(drive.mode_writes) == 0, "refused mode was written", key + "/refused-wrote")
        sx.reach("mode-refused")
        return
    sx.observe("writes", list(drive.mode_writes))
    sx.prove(sup, "mode not advertised but accepted", key + "/accepted")
    sx.prove(len(drive.mode_writes) == 1 and drive.mode_writes[0] == code, "mode written as its CiA 402 code",
             key + "/code")
    sx.prove(node.op_mode == mode, "mode display read back", key + "/readback")
    sx.reach("mode-set")


def op_mode_unknown(name, transport):
    """a mode name the library has no code for (the two 'OPEN LOOP' names of the docstring, a typo): refused, nothing
    reaches the drive, whatever the drive advertises"""
    node = _node()
    drive = D.Drive(D.SOD)
    sx.env().tick = 0.05
    rx = []
    if transport == "pdo":
        net = sx.mod("canopen.network").Network()
        net.send_message = lambda cid, data, remote=False: rx.append((cid, sx.mkbytes(sx.items(data))))
        net.add_node(node)
        _attach_sdo(node, drive)
        r = node.rpdo[1]
        r.clear()
        r.add_variable(0x6040)
        r.add_variable(0x6060)
        r.cob_id = 0x203
        r.enabled = True
        node.setup_pdos(upload=False)
    else:
        _attach_sdo(node, drive)
    drive.supported = sx.fresh_int("supported", 0, 0xFFFFFFFF)
    key = "C19/op_mode_unknown/%s/%s" % (name, transport)
    try:
        node.op_mode = name
        sx.fail("a mode name without a CiA 402 code was accepted", key + "/accepted")
    except Exception as e:
        sx.observe("exc", C.exc_name(e))
    sx.prove(len(drive.mode_writes) == 0 and len(rx) == 0, "something was sent for a refused mode", key + "/sent")
    sx.reach("mode-unknown")


def op_mode_retry(mode):
    """the first query of the supported modes (0x6502) goes unanswered; once the drive answers again, an advertised
    mode is accepted and written (nothing wrong may be remembered from the failed attempt)"""
    node = _node()
    drive = D.Drive(D.SOD)
    sx.env().tick = 0.05
    _attach_sdo(node, drive)
    E = sx.mod("canopen.sdo.exceptions")
    fail = {"n": 1}
    inner = node.sdo.upload

    def upload(index, subindex):
        if index == 0x6502 and fail["n"] > 0:
            fail["n"] -= 1
            raise E.SdoCommunicationError("No SDO response received")
        return inner(index, subindex)
    node.sdo.upload = upload
    drive.supported = sx.fresh_int("supported", 0, 0xFFFFFFFF)
    code, bit = D.MODES[mode]
    sup = ((drive.supported >> bit) & 1) == 1
    key = "C19/op_mode_retry/%s" % mode
    try:
        node.op_mode = mode              # may fail or do nothing: the drive did not answer
    except Exception as e:
        sx.observe("exc1", C.exc_name(e))
    sx.prove(len(drive.mode_writes) == 0 or bool(sup), "mode written although support was never confirmed",
             key + "/first-wrote")
    n0 = len(drive.mode_writes)
    try:
        node.op_mode = mode
    except TypeError:
        sx.prove(sx.not_(sup), "advertised mode refused after an earlier unanswered query", key + "/refused")
        sx.reach("mode-retry-refused")
        return
    except Exception as e:
        sx.observe("exc2", C.exc_name(e))
        sx.fail("second assignment raised %s" % C.exc_name(e), key + "/raises")
        return
    sx.prove(sup, "mode not advertised but accepted", key + "/accepted")
    sx.prove(len(drive.mode_writes) > n0 and drive.mode_writes[-1] == code, "mode written as its CiA 402 code",
             key + "/code")
    sx.reach("mode-retry")


def op_mode_pdo(first, second, layout="shared"):
    """Operation mode carried by PDO: 0x6060 shares RPDO1 with the controlword, 0x6061 comes with the statusword in
    an event-driven TPDO1.  Two assignments (each accepted or refused according to a symbolic support mask), then a
    state change that sends the RPDO again: every mode code the drive ever receives belongs to an accepted
    assignment, and a refused one leaves nothing behind in the RPDO."""
    node = _node()
    drive = D.Drive(D.SOD)
    sx.env().tick = 0.05
    net = sx.mod("canopen.network").Network()
    rx_modes = []

    # layout 'shared': RPDO1 = controlword + mode.  layout 'split' (the CiA 402 default mapping): RPDO1 = controlword
    # alone, RPDO2 = controlword + mode; the mode only travels in RPDO2
    mode_cob = 0x203 if layout == "shared" else 0x303

    def send(cid, data, remote=False):
        it = sx.items(data)
        if cid == 0x203 or cid == 0x303:
            drive.write_controlword(sx.le_int(it[0:2]))
        if cid == mode_cob:
            m = sx.le_int(it[2:3], True)
            rx_modes.append(m)
            drive.mode = m
        if cid == 0x203 or cid == 0x303:
            net.notify(0x183, sx.mkbytes(sx.items(_le(drive.statusword(), 2)) + [drive.mode & 0xFF]), sx.env().now)
    net.send_message = send
    net.add_node(node)
    _attach_sdo(node, drive)
    r = node.rpdo[1]
    r.clear()
    r.add_variable(0x6040)
    if layout == "shared":
        r.add_variable(0x6060)
    r.cob_id = 0x203
    r.enabled = True
    if layout == "split":
        r2 = node.rpdo[2]
        r2.clear()
        r2.add_variable(0x6040)
        r2.add_variable(0x6060)
        r2.cob_id = 0x303
        r2.enabled = True
    t = node.tpdo[1]
    t.clear()
    t.add_variable(0x6041)
    t.add_variable(0x6061)
    t.cob_id = 0x183
    t.enabled = True
    t.trans_type = 255
    node.setup_pdos(upload=False)
    net.notify(0x183, sx.mkbytes(sx.items(_le(drive.statusword(), 2)) + [0]), 1.0)
    drive.supported = sx.fresh_int("supported", 0, 0xFFFFFFFF)
    allowed = [0]
    key = "C19/op_mode_pdo/%s/%s%s" % (first, second, "" if layout == "shared" else "/" + layout)
    for mode in (first, second):
        code, bit = D.MODES[mode]
        sup = ((drive.supported >> bit) & 1) == 1
        try:
            node.op_mode = mode
            sx.prove(sup, "mode not advertised but accepted", key + "/accepted")
            allowed.append(code)
            sx.prove(drive.mode == code, "accepted mode reached the drive as its CiA 402 code", key + "/code")
            sx.reach("mode-pdo-set")
        except TypeError:
            sx.prove(sx.not_(sup), "advertised mode refused", key + "/refused")
            sx.reach("mode-pdo-refused")
        except Exception as e:
            sx.observe("exc", C.exc_name(e))
            sx.fail("op_mode raised %s" % C.exc_name(e), key + "/raises")
            return
    # the RPDO goes out again for another reason
    try:
        node.state = D.RTSO
    except Exception as e:
        sx.observe("exc", C.exc_name(e))
        sx.fail("state change raised %s" % C.exc_name(e), key + "/state-raises")
        return
    sx.observe("rx", list(rx_modes))
    sx.prove(sx.all_([sx.any_([m == a for a in allowed]) for m in rx_modes]),
             "the drive received a mode code that was never accepted", key + "/foreign-code")
    if rx_modes:
        sx.prove(rx_modes[-1] == allowed[-1], "the RPDO carries the last accepted mode", key + "/last")
    sx.reach("mode-pdo")


def jobs(tier):
    out = [dict(func="decode", params={})]
    for ini in ("OPERATION ENABLED", "SWITCHED ON", "READY TO SWITCH ON"):
        out.append(dict(func="late_sdo_answer", params=dict(initial=ini)))
    for mode in ("PROFILED POSITION", "CYCLIC SYNCHRONOUS TORQUE", "HOMING"):
        for described in ("default", "value"):
            out.append(dict(func="op_mode", params=dict(mode=mode, described=described)))
    for ini in D.ALL_STATES:
        for tgt in D.ALL_STATES:
            out.append(dict(func="transition", params=dict(initial=ini, target=tgt, transport="sdo"), weight=2))
            out.append(dict(func="transition", params=dict(initial=ini, target=tgt, transport="pdo"), weight=3))
            out.append(dict(func="transition", params=dict(initial=ini, target=tgt, transport="pdo-event"), weight=3))
            if tgt in D.COMMANDABLE:
                out.append(dict(func="transition", params=dict(initial=ini, target=tgt, transport="pdo-disabled"), weight=2))
            if tgt in D.COMMANDABLE and tgt != D.QSA and ini in (D.QSA, D.OE):
                # a drive that leaves QUICK STOP ACTIVE on its own (option code 1-3) while the library is working
                out.append(dict(func="transition", params=dict(initial=ini, target=tgt, transport="sdo-qsa-auto"), weight=2))
        for tgt in ("DISABLE VOLTAGE", "BOGUS"):
            out.append(dict(func="bad_target", params=dict(initial=ini, target=tgt)))
    for mode in D.MODES:
        out.append(dict(func="op_mode", params=dict(mode=mode)))
        out.append(dict(func="op_mode_retry", params=dict(mode=mode)))
    for name in ("OPEN LOOP SCALAR MODE", "OPEN LOOP VECTOR MODE", "PROFILE POSITION", ""):
        for tr in ("sdo", "pdo"):
            out.append(dict(func="op_mode_unknown", params=dict(name=name, transport=tr)))
    names = list(D.MODES)
    pairs = [(names[i], names[(i + 1) % len(names)]) for i in range(len(names))] if tier == "quick" else \
        [(a, b) for a in names for b in names if a != b]
    for a, b in pairs:
        out.append(dict(func="op_mode_pdo", params=dict(first=a, second=b), weight=2))
        out.append(dict(func="op_mode_pdo", params=dict(first=a, second=b, layout="split"), weight=2))
    starts = (D.SOD, D.FAULT, D.OE) if tier == "quick" else D.ALL_STATES
    for ini in starts:
        for t1 in D.COMMANDABLE:
            for t2 in D.COMMANDABLE:
                for tr in ("sdo", "pdo"):
                    out.append(dict(func="sequence", params=dict(initial=ini, t1=t1, t2=t2, transport=tr), weight=3))
    return out


META = dict(
    level_text="Bounded symbolic execution of BaseNode402.state (getter/setter), _next_state, _change_state, "
               "statusword/check_statusword, controlword and op_mode against an independent CiA 402 drive model: one "
               "symbolic 16-bit statusword decides the decoding for all 65536 words; all 8x8 (state, target) pairs "
               "over SDO and PDO transport with symbolic extra status bits on every read and automatic transitions "
               "delayed by 0..2 status reads; all modes against a symbolic 32-bit supported-modes mask.",
    level_note="Reference drive supports the optional transition 16 and starts with controlword 0. Fake monotonic "
               "clock (tick 20 ms) bounds every wait loop; exceeding a library time-out is reported as a violation.",
    bounds=dict(quick="all statuswords; 8x8 pairs x {SDO, PDO} x automatic-transition delay 0..2 reads; extra status "
                      "bits symbolic per read; invalid targets 'DISABLE VOLTAGE' and an arbitrary string from all 8 "
                      "states; 9 modes x symbolic 32-bit support mask; sequences of two assignments (3 start states x 5 x 5 "
                      "targets x 2 transports)", thorough="sequences from all 8 start states"),
    outside_bounds=["drives without transition 16", "drives whose last controlword already had bit 7 set (no rising "
                    "edge for fault reset)", "real-time behaviour of the time-outs", "modes missing from NAME2CODE"],
    assumptions=["a status read is the only point where an automatic transition becomes visible"],
    stubs=["struct", "time.monotonic", "threading.Condition", "sdo.upload/download replaced on the instance (framing is "
           "C01's business)", "Network.send_message replaced on the instance"],
    required_reach=["mode-described", "late-sdo-answer", "decode-unknown"] + ["decode-" + s for s in D.ALL_STATES] +
                   ["refused", "commanded", "bad-target-refused", "mode-refused", "mode-set", "sequence", "mode-pdo", "mode-pdo-set", "mode-pdo-refused", "mode-retry", "mode-retry-refused", "mode-unknown"],
    limits=dict(quick=dict(max_decisions=20000), thorough=dict(max_decisions=20000, crosscheck_every=2, crosscheck_max=30)),
    validate_every=dict(quick=2, thorough=1),
)
