"""C02 - SDO server serves and stores object values exactly, in conformant CiA 301 frames."""
from symx import api as sx
from harness import common as C
from harness.sdo_rig import ServerRig
from refmodels.sdo_client import le32, RefClient, Abort
from refmodels import cia301 as S301

CLAIMED = True

DOM, OCT, VIS = 0x0F, 0x0A, 0x09
NUMS = [0x05, 0x03, 0x16, 0x07, 0x15, 0x1B, 0x10, 0x12]     # U8 I16 U24 U32 I64 U64 I24 I40


def sdo_od():
    od = C.odmod().ObjectDictionary()
    od.add_object(C.mkvar("domain", 0x2000, 0, DOM, "rw"))
    od.add_object(C.mkvar("octets", 0x2001, 0, OCT, "rw"))
    od.add_object(C.mkvar("text", 0x2002, 0, VIS, "rw"))
    for i, code in enumerate(NUMS):
        od.add_object(C.mkvar("num %s" % S301.NAMES[code], 0x2010 + i, 0, code, "rw"))
    od.add_object(C.mkvar("real", 0x2018, 0, S301.REAL32, "rw"))
    od.add_object(C.mkvar("ro", 0x2020, 0, 0x06, "ro", default=0x1234))
    od.add_object(C.mkvar("wo", 0x2021, 0, 0x06, "wo", default=7))
    od.add_object(C.mkvar("const", 0x2022, 0, 0x07, "const", default=0xCAFE))
    od.add_object(C.mkvar("novalue", 0x2023, 0, 0x05, "rw"))
    od.add_object(C.mkrecord("record", 0x2030, [
        C.mkvar("n", 0x2030, 0, 0x05, "ro", default=3),
        C.mkvar("a", 0x2030, 1, 0x06, "rw", default=1),
        C.mkvar("c", 0x2030, 3, 0x07, "ro", default=3)]))
    od.add_object(C.mkarray("array", 0x2040, [
        C.mkvar("n", 0x2040, 0, 0x05, "ro", default=2),
        C.mkvar("e1", 0x2040, 1, 0x03, "rw", default=-5),
        C.mkvar("e2", 0x2040, 2, 0x03, "rw")]))
    od.add_object(C.mkrecord("record2", 0x2050, [
        C.mkvar("n", 0x2050, 0, 0x05, "ro", default=1),
        C.mkvar("blob", 0x2050, 1, DOM, "rw")]))
    return od


def _spec_bytes(code, v):
    w = S301.width(code) // 8
    return [sx.byte_of(v, i) for i in range(w)]


def _fresh_typed(code, name):
    lo, hi = S301.int_range(code)
    return sx.fresh_int(name, lo, hi)


def _target(kind):
    """(index, sub, od variable code) of the object used for `kind`"""
    if kind == "dom":
        return 0x2000, 0, DOM
    if kind == "oct":
        return 0x2001, 0, OCT
    if kind == "recdom":
        return 0x2050, 1, DOM
    if kind == "rec":
        return 0x2030, 1, 0x06
    if kind == "arr":
        return 0x2040, 2, 0x03
    if kind == "arrdyn":
        return 0x2040, 9, 0x03
    code = int(kind)
    return 0x2010 + NUMS.index(code), 0, code


def _mkval(kind, code, n, name):
    """(typed value handed to the library, expected byte items)"""
    if code in (DOM, OCT):
        b = sx.fresh_bytes(name, n)
        return b, sx.items(b)
    v = _fresh_typed(code, name)
    return v, _spec_bytes(code, v)


def _odvar(rig, idx, sub):
    o = rig.node.object_dictionary[idx]
    if not isinstance(o, C.odmod().ODVariable):
        o = o[sub]
    return o


def upload_value(kind, sources, n=0):
    """whatever supplies the value, the client obtains exactly its bytes (precedence callback > store >
    parameter value > default)"""
    rig = ServerRig(sdo_od())
    cli = RefClient(rig.deliver, "C02")
    idx, sub, code = _target(kind)
    var = _odvar(rig, idx, sub)
    if kind == "arrdyn":
        var = None
    order = ["callback", "store", "value", "default"]
    srcs = sources.split("+")
    vals = {}
    for i, s in enumerate(srcs):
        vals[s] = _mkval(kind, code, n, "v_" + s)
    for s in srcs:
        v, items = vals[s]
        if s == "default":
            (var if var is not None else rig.node.object_dictionary[idx][1]).default = v
        elif s == "value":
            (var if var is not None else rig.node.object_dictionary[idx][1]).value = v
        elif s == "store":
            r = cli.download(idx, sub, items, "auto")
            sx.prove(r is None, "download to prepare the store was refused", "C02/upload/prepare-store")
        elif s == "callback":
            def cb(index, subindex, od, _v=v):
                if index == idx and subindex == sub:
                    return _v
                return None
            rig.node.add_read_callback(cb)
    winner = [s for s in order if s in srcs][0]
    exp = vals[winner][1]
    res = cli.upload(idx, sub)
    tag = "C02/upload/%s/%s" % (kind if not kind.isdigit() else S301.NAMES[int(kind)], sources)
    if res is None:
        return
    if isinstance(res, Abort):
        sx.observe("abort", res.code)
        sx.fail("readable entry with a value was refused", tag + "/refused")
        return
    data, announced = res
    sx.observe("data", sx.mkbytes(data))
    sx.prove(len(data) == len(exp), "uploaded length", tag + "/length")
    sx.prove(sx.eq_bytes(sx.mkbytes(data), sx.mkbytes(exp)), "uploaded bytes are the value's bytes", tag + "/bytes")
    sx.reach("upload-" + winner)
    if len(exp) == 0:
        sx.reach("upload-empty")
    if len(exp) > 4:
        sx.reach("upload-segmented")


def download_value(kind, n, mode, last="full"):
    """an accepted download stores exactly the transferred bytes; callbacks and later uploads see them"""
    rig = ServerRig(sdo_od())
    cli = RefClient(rig.deliver, "C02")
    idx, sub, code = _target(kind)
    seen = []
    rig.node.add_write_callback(lambda index, subindex, od, data: seen.append((index, subindex, od, data)))
    payload = sx.fresh_bytes("p", n)
    tag = "C02/download/%s/%s" % (kind if not kind.isdigit() else S301.NAMES[int(kind)], mode)
    r = cli.download(idx, sub, sx.items(payload), mode, last)
    if isinstance(r, Abort):
        sx.observe("abort", r.code)
        sx.fail("legal download refused", tag + "/refused")
        return
    stored = rig.node.data_store[idx][sub]
    sx.observe("stored", stored)
    sx.prove(sx.eq_bytes(stored, payload), "data_store holds exactly the payload", tag + "/stored")
    mine = [s for s in seen if s[0] == idx]
    sx.prove(len(mine) == 1 and mine[0][1] == sub and sx.eq_bytes(mine[0][3], payload) is not False
             and mine[0][2] is (_odvar(rig, idx, sub) if kind != "arrdyn" else mine[0][2]),
             "write callback saw (index, sub, od, payload)", tag + "/callback")
    if mine:
        sx.prove(sx.eq_bytes(mine[0][3], payload), "write callback payload", tag + "/callback-bytes")
    res = cli.upload(idx, sub)
    if isinstance(res, Abort) or res is None:
        sx.fail("stored value cannot be read back", tag + "/readback-refused")
        return
    sx.prove(sx.eq_bytes(sx.mkbytes(res[0]), payload), "upload returns the downloaded bytes", tag + "/readback")
    sx.reach("download-" + mode)


# ---- robustness ------------------------------------------------------------------------------------
def _sym_server_state(rig, bufm, unset):
    srv = rig.node.sdo
    if bufm is None:
        srv._buffer = None
    else:
        from_items = sx.items(sx.fresh_bytes("buf", bufm))
        srv._buffer = _ba(from_items)
    srv._toggle = sx.ite(sx.fresh_bool("tog"), 0x10, 0)
    srv._downloading = bool(sx.choice(2, "downloading")) and bufm is not None
    if not unset:
        srv._index = sx.fresh_int("sidx", 0, 0xFFFF)
        srv._subindex = sx.fresh_int("ssub", 0, 0xFF)


def _ba(items):
    if sx.symbolic():
        from symx.symbytes import SymByteArray
        return SymByteArray(items)
    return bytearray(items)


def _check_arbitrary(rig, frame, tag):
    f = sx.items(frame)
    try:
        resps = rig.deliver(frame)
    except Exception as e:
        sx.observe("exc", C.exc_name(e))
        sx.fail("server raised %s into the receive path" % C.exc_name(e), tag + "/raises")
        return
    is_abort_req = (f[0] >> 5) == 4
    if is_abort_req if isinstance(is_abort_req, bool) else bool(is_abort_req):
        sx.prove(len(resps) <= 1, "more than one response", tag + "/count")
        sx.reach("abort-request")
    else:
        sx.prove(len(resps) == 1, "exactly one response per request", tag + "/count")
    for r in resps:
        sx.observe("resp", r)
        sx.prove(len(sx.items(r)) == 8, "response is 8 bytes", tag + "/length")
    # an initiate request names an object: whatever the answer (confirmation or abort), it echoes that multiplexer
    if len(f) == 8 and len(resps) == 1 and len(sx.items(resps[0])) == 8:
        ccs = f[0] >> 5
        initiate = (ccs == 1) | (ccs == 2) | ((ccs == 6) & ((f[0] & 1) == 0)) | ((ccs == 5) & ((f[0] & 3) == 0))
        r = sx.items(resps[0])
        sx.prove(sx.not_(initiate) | ((r[1] == f[1]) & (r[2] == f[2]) & (r[3] == f[3])),
                 "response to an initiate request does not echo the addressed multiplexer", tag + "/mux")


def robust_step(L, bufm, unset):
    """one arbitrary frame of L bytes from an arbitrary server state"""
    rig = ServerRig(sdo_od())
    _sym_server_state(rig, bufm, unset)
    frame = sx.fresh_bytes("f", L)
    _check_arbitrary(rig, frame, "C02/robust-step" + ("/fresh" if unset else ""))
    sx.reach("robust-step")


def small_od():
    od = C.odmod().ObjectDictionary()
    od.add_object(C.mkvar("domain", 0x2000, 0, DOM, "rw"))
    od.add_object(C.mkvar("const", 0x2022, 0, 0x07, "const", default=0xCAFE))
    od.add_object(C.mkrecord("record", 0x2030, [
        C.mkvar("n", 0x2030, 0, 0x05, "ro", default=1),
        C.mkvar("a", 0x2030, 1, 0x06, "rw", default=1)]))
    return od


def robust_history(k, tail, ccs0=None):
    """k arbitrary 8-byte frames to a freshly created node, then a valid transfer"""
    rig = ServerRig(small_od())
    for i in range(k):
        f = sx.fresh_bytes("f%d" % i, 8)
        if i == 0 and ccs0 is not None:
            sx.assume((sx.items(f)[0] >> 5) == ccs0)
        _check_arbitrary(rig, f, "C02/robust-history")
    cli = RefClient(rig.deliver, "C02")
    if tail == "download":
        p = sx.fresh_bytes("p", 9)
        r = cli.download(0x2000, 0, sx.items(p), "seg-size")
        sx.prove(r is None, "valid download after garbage refused", "C02/robust-history/tail-download")
        if r is None:
            sx.prove(sx.eq_bytes(rig.node.data_store[0x2000][0], p), "valid download after garbage stored",
                     "C02/robust-history/tail-stored")
    else:
        res = cli.upload(0x2022, 0)
        ok = res is not None and not isinstance(res, Abort)
        sx.prove(ok, "valid upload after garbage refused", "C02/robust-history/tail-upload")
        if ok:
            sx.prove(sx.eq_bytes(sx.mkbytes(res[0]), bytes([0xFE, 0xCA, 0, 0])), "valid upload after garbage",
                     "C02/robust-history/tail-value")
    sx.reach("robust-history")


def stray_after(n, k):
    """after a completed download, frames that do not initiate a download cannot change stored values"""
    rig = ServerRig(small_od())
    cli = RefClient(rig.deliver, "C02")
    p = sx.fresh_bytes("p", n)
    r = cli.download(0x2000, 0, sx.items(p), "seg-size" if n > 4 else "exp-size")
    sx.prove(r is None, "download refused", "C02/stray/prepare")
    for i in range(k):
        f = sx.fresh_bytes("f%d" % i, 8)
        sx.assume((sx.items(f)[0] >> 5) != 1)          # anything but an initiate-download request
        try:
            rig.deliver(f)
        except Exception as e:
            sx.fail("server raised %s" % C.exc_name(e), "C02/stray/raises")
            return
    sx.prove(sx.eq_bytes(rig.node.data_store[0x2000][0], p), "a frame that starts no download changed the stored value",
             "C02/stray/stored")
    res = cli.upload(0x2000, 0)
    ok = res is not None and not isinstance(res, Abort)
    sx.prove(ok, "upload after stray frames refused", "C02/stray/upload")
    if ok:
        sx.prove(sx.eq_bytes(sx.mkbytes(res[0]), p), "upload after stray frames returns the downloaded bytes",
                 "C02/stray/value")
    sx.reach("stray")


def upload_interrupts(n, small):
    """a segmented download in progress, then an upload initiate (which ends it), then any frame that is not
    a download initiate: nothing may be stored anywhere"""
    rig = ServerRig(sdo_od())
    cli = RefClient(rig.deliver, "C02")
    p1 = sx.fresh_bytes("p1", n)
    if small == 4:
        # a writable byte-string object that currently holds a short (expedited) value
        cli.download(0x2001, 0, sx.items(sx.fresh_bytes("short", 3)), "exp-size")
    cli.xfer([0x21, 0x00, 0x20, 0] + [n, 0, 0, 0])
    cli.xfer([0x00] + sx.items(p1)[:7] + [0] * max(0, 7 - n))
    before = rig.store_snapshot()
    # the interrupting upload: an expedited one (small) or a segmented / refused one
    idx, sub = {1: (0x2022, 0), 2: (0x2030, 1), 3: (0x2023, 0), 4: (0x2001, 0)}[small]
    res = cli.upload(idx, sub) if small != 3 else cli.xfer([0x40, 0x23, 0x20, 0, 0, 0, 0, 0])
    f = sx.fresh_bytes("f", 8)
    sx.assume((sx.items(f)[0] >> 5) != 1)
    try:
        rig.deliver(f)
    except Exception as e:
        sx.fail("server raised %s" % C.exc_name(e), "C02/upload-interrupts/raises")
        return
    after = rig.store_snapshot()
    same = set(after) == set(before) and sx.all_([sx.eq_bytes(after[k], before[k]) for k in after]) is not False
    sx.prove(same, "a download segment after an intervening upload stored something", "C02/upload-interrupts/stored-shape")
    if set(after) == set(before):
        sx.prove(sx.all_([sx.eq_bytes(after[k], before[k]) for k in after]),
                 "a download segment after an intervening upload changed a stored value", "C02/upload-interrupts/stored")
    sx.reach("upload-interrupts")


def two_members():
    """downloads to two members of one record/array are both kept"""
    rig = ServerRig(sdo_od())
    cli = RefClient(rig.deliver, "C02")
    a = sx.fresh_bytes("a", 2)
    b = sx.fresh_bytes("b", 2)
    for idx, s1, s2 in ((0x2040, 1, 2), (0x2040, 2, 1)):
        sx.prove(cli.download(idx, s1, sx.items(a), "exp-size") is None, "member download refused", "C02/members/refused")
        sx.prove(cli.download(idx, s2, sx.items(b), "exp-size") is None, "member download refused", "C02/members/refused")
        r1, r2 = cli.upload(idx, s1), cli.upload(idx, s2)
        ok = r1 is not None and r2 is not None and not isinstance(r1, Abort) and not isinstance(r2, Abort)
        sx.prove(ok, "member upload refused after writing its sibling", "C02/members/upload-refused")
        if ok:
            sx.prove(sx.eq_bytes(sx.mkbytes(r1[0]), a) & sx.eq_bytes(sx.mkbytes(r2[0]), b),
                     "a download to one member changed what its sibling returns", "C02/members/value")
    sx.reach("two-members")


def interleaved(n):
    """a valid segmented transfer interrupted by a restart: a new initiate mid-transfer restarts cleanly"""
    rig = ServerRig(sdo_od())
    cli = RefClient(rig.deliver, "C02")
    p1 = sx.fresh_bytes("p1", n)
    p2 = sx.fresh_bytes("p2", n)
    # start a segmented download, send one segment, then restart with another payload
    mux = [0x00, 0x20, 0]
    r = cli.xfer([0x21] + mux + [n, 0, 0, 0])
    r = cli.xfer([0x00] + sx.items(p1)[:7] + [0] * max(0, 7 - n))
    res = cli.download(0x2000, 0, sx.items(p2), "seg-size")
    sx.prove(res is None, "restart refused", "C02/interleaved/restart")
    if res is None:
        sx.prove(sx.eq_bytes(rig.node.data_store[0x2000][0], p2), "restarted download stores the new payload only",
                 "C02/interleaved/stored")
    sx.reach("interleaved")


def two_servers(n, m):
    """two local nodes in one process (fresh, each with its own dictionary) served frame by frame in turn: segmented
    downloads whose frames interleave store each node's own payload, and interleaved uploads return each node's own
    value - transfer state belongs to the server object"""
    ra = ServerRig(sdo_od(), 2)
    rb = ServerRig(sdo_od(), 3)
    ca, cb = RefClient(ra.deliver, "C02"), RefClient(rb.deliver, "C02")
    pa, pb = sx.fresh_bytes("pa", n), sx.fresh_bytes("pb", m)
    mux = [0x00, 0x20, 0]

    def segs(p):
        it = sx.items(p)
        out = []
        for k in range(0, len(it), 7):
            chunk = it[k:k + 7]
            last = k + 7 >= len(it)
            out.append([((k // 7) % 2) << 4 | ((7 - len(chunk)) << 1) | (1 if last else 0)] + chunk + [0] * (7 - len(chunk)))
        return out
    ok = True
    ra_ = ca.xfer([0x21] + mux + le32(n))
    rb_ = cb.xfer([0x21] + mux + le32(m))
    sa, sb = segs(pa), segs(pb)
    for k in range(max(len(sa), len(sb))):
        for cli, ss in ((ca, sa), (cb, sb)):
            if k < len(ss):
                r = cli.xfer(ss[k])
                if r is None or bool(r[0] == 0x80):
                    ok = False
    sx.prove(ok, "interleaved downloads to two nodes were refused", "C02/two-servers/refused")
    if ok:
        sx.prove(sx.eq_bytes(ra.node.data_store[0x2000][0], pa), "node A stores its own payload", "C02/two-servers/stored-a")
        sx.prove(sx.eq_bytes(rb.node.data_store[0x2000][0], pb), "node B stores its own payload", "C02/two-servers/stored-b")
    # interleaved uploads of the two values
    ia = ca.xfer([0x40] + mux + [0, 0, 0, 0])
    ib = cb.xfer([0x40] + mux + [0, 0, 0, 0])
    for cli, init, p, nn, nm in ((ca, ia, pa, n, "a"), (cb, ib, pb, m, "b")):
        if init is None:
            return
    got = {"a": [], "b": []}
    fin = {"a": n <= 4, "b": m <= 4}
    if n <= 4:
        got["a"] = ia[4:4 + n]
    if m <= 4:
        got["b"] = ib[4:4 + m]
    tog = {"a": 0, "b": 0}
    guard = 0
    while not (fin["a"] and fin["b"]) and guard < 40:
        guard += 1
        for cli, nm in ((ca, "a"), (cb, "b")):
            if fin[nm]:
                continue
            r = cli.xfer([0x60 | tog[nm] << 4, 0, 0, 0, 0, 0, 0, 0])
            if r is None or bool(r[0] == 0x80):
                sx.fail("interleaved upload refused", "C02/two-servers/upload-refused")
                return
            cnt = sx.concretize(7 - ((r[0] >> 1) & 7))
            got[nm] += r[1:1 + cnt]
            tog[nm] ^= 1
            if bool((r[0] & 1) == 1):
                fin[nm] = True
    for nm, p in (("a", pa), ("b", pb)):
        sx.prove(len(got[nm]) == len(sx.items(p)), "uploaded length", "C02/two-servers/upload-length")
        if len(got[nm]) == len(sx.items(p)):
            sx.prove(sx.eq_bytes(sx.mkbytes(got[nm]), p), "each node serves its own value", "C02/two-servers/upload-" + nm)
    sx.reach("two-servers")


def two_read_callbacks(order):
    """several read callbacks registered (one per object, as the documentation suggests): the value comes from the
    callback that answers for the entry, wherever it stands in the list; callbacks that return None are passed over"""
    rig = ServerRig(sdo_od())
    cli = RefClient(rig.deliver, "C02")
    v = sx.fresh_int("v", 0, 0xFFFFFFFF)
    calls = []

    def mine(index, subindex, od):
        calls.append("mine")
        return v if (index == 0x2013 and subindex == 0) else None

    def other(index, subindex, od):
        calls.append("other")
        return 7 if index == 0x2001 else None
    for c in order:
        rig.node.add_read_callback(mine if c == "m" else other)
    res = cli.upload(0x2013, 0)
    tag = "C02/two-callbacks/" + order
    if res is None:
        return
    if isinstance(res, Abort):
        sx.fail("entry served by a read callback was refused", tag + "/refused")
        return
    data, announced = res
    sx.prove(len(data) == 4, "length", tag + "/length")
    if len(data) == 4:
        sx.prove(sx.eq_bytes(sx.mkbytes(data), sx.mkbytes(le32(v))), "value of the answering callback", tag + "/bytes")
    sx.reach("two-callbacks")


def local_read_during_transfer(direction):
    """the application reads its own node's objects (node.sdo[...].raw, node.sdo.upload) while a client's segmented
    transfer is under way: the transfer is served / stored exactly as without the local read"""
    rig = ServerRig(sdo_od())
    cli = RefClient(rig.deliver, "C02")
    val = sx.fresh_bytes("val", 20)
    other = sx.fresh_bytes("other", 30)
    rig.node.data_store[0x2001] = {0: sx.mkbytes(sx.items(other))}
    tag = "C02/local-read/%s" % direction
    if direction == "upload":
        rig.node.data_store[0x2000] = {0: sx.mkbytes(sx.items(val))}
        r = cli.xfer([0x40, 0x00, 0x20, 0x00, 0, 0, 0, 0])
        sx.prove(r is not None and r[0] == 0x41, "initiate", tag + "/prepare")
        seg1 = cli.xfer([0x60, 0, 0, 0, 0, 0, 0, 0])
        got_local = rig.node.sdo.upload(0x2001, 0)              # the application looks at another object
        sx.prove(sx.eq_bytes(got_local, other), "local read", tag + "/local-value")
        seg2 = cli.xfer([0x70, 0, 0, 0, 0, 0, 0, 0])
        seg3 = cli.xfer([0x60, 0, 0, 0, 0, 0, 0, 0])
        ok = all(x is not None for x in (seg1, seg2, seg3))
        sx.prove(ok, "segments answered", tag + "/answered")
        if ok:
            data = seg1[1:8] + seg2[1:8] + seg3[1:7]
            sx.prove(sx.eq_bytes(sx.mkbytes(data), val), "upload continued with another object's data", tag + "/bytes")
            sx.prove((seg3[0] & 0x01) == 1, "last segment flagged", tag + "/last")
    else:
        r = cli.xfer([0x21, 0x00, 0x20, 0x00, 20, 0, 0, 0])
        sx.prove(r is not None and r[0] == 0x60, "initiate", tag + "/prepare")
        it = sx.items(val)
        cli.xfer([0x00] + it[0:7])
        got_local = rig.node.sdo.upload(0x2001, 0)
        sx.prove(sx.eq_bytes(got_local, other), "local read", tag + "/local-value")
        cli.xfer([0x10] + it[7:14])
        r = cli.xfer([0x00 | (1 << 1) | 1] + it[14:20] + [0])
        sx.prove(r is not None and r[0] == 0x20, "last segment confirmed", tag + "/confirmed")
        st = rig.node.data_store.get(0x2000, {}).get(0)
        sx.prove(st is not None and len(sx.items(st)) == 20 and sx.eq_bytes(st, val) is not False,
                 "download stored something else than the transferred bytes", tag + "/stored")
    sx.reach("local-read")


def after_other_transfer(n, m):
    """what an upload serves depends only on the addressed entry: an entry holding n bytes is uploaded after a
    download of m bytes to another entry (history on one server), in particular the empty value after a longer one"""
    rig = ServerRig(sdo_od())
    cli = RefClient(rig.deliver, "C02")
    a = sx.fresh_bytes("a", n)
    b = sx.fresh_bytes("b", m)
    r = cli.download(0x2000, 0, sx.items(a), "seg-size")
    sx.prove(r is None, "download refused", "C02/after-other/prepare")
    r = cli.download(0x2001, 0, sx.items(b), "seg-size" if m > 4 or m == 0 else "exp-size")
    sx.prove(r is None, "download refused", "C02/after-other/prepare")
    res = cli.upload(0x2000, 0)
    ok = res is not None and not isinstance(res, Abort)
    sx.prove(ok, "upload refused", "C02/after-other/refused")
    if ok:
        sx.observe("got", sx.mkbytes(res[0]))
        sx.prove(len(res[0]) == n and sx.eq_bytes(sx.mkbytes(res[0]), a) is not False,
                 "upload serves another entry's data or length", "C02/after-other/length")
        if len(res[0]) == n:
            sx.prove(sx.eq_bytes(sx.mkbytes(res[0]), a), "uploaded bytes", "C02/after-other/bytes")
        sx.prove(res[1] is None or (res[1] == n) is not False, "announced size", "C02/after-other/size")
    sx.reach("after-other")


def shared_dictionary(when):
    """several local nodes may be built from one ObjectDictionary object (a family of identical devices): what is
    downloaded to one of them is that node's value; another node - existing already or created afterwards - still
    serves the dictionary's default / parameter value"""
    od = sdo_od()
    d = sx.fresh_int("d", 0, 0xFFFFFFFF)
    od[0x2013].default = d
    od[0x2030][1].default = 0x0102
    ra = ServerRig(od, 2)
    rb = ServerRig(od, 3) if when == "before" else None
    ca = RefClient(ra.deliver, "C02")
    v = sx.fresh_int("v", 0, 0xFFFFFFFF)
    r = ca.download(0x2013, 0, le32(v), "exp-size")
    r2 = ca.download(0x2030, 1, [0x55, 0x66], "exp-size")
    sx.prove(r is None and r2 is None, "download refused", "C02/shared-od/prepare")
    if rb is None:
        rb = ServerRig(od, 3)
    cb = RefClient(rb.deliver, "C02")
    tag = "C02/shared-od/%s" % when
    for idx, sub, exp in ((0x2013, 0, le32(d)), (0x2030, 1, [0x02, 0x01])):
        res = cb.upload(idx, sub)
        ok = res is not None and not isinstance(res, Abort)
        sx.prove(ok, "upload from the other node refused", tag + "/refused")
        if ok:
            sx.prove(len(res[0]) == len(exp) and sx.eq_bytes(sx.mkbytes(res[0]), sx.mkbytes(exp)) is not False,
                     "the other node serves what was downloaded to its sibling", tag + "/value")
            if len(res[0]) == len(exp):
                sx.prove(sx.eq_bytes(sx.mkbytes(res[0]), sx.mkbytes(exp)), "the other node's value", tag + "/bytes")
    res = ca.upload(0x2013, 0)
    if res is not None and not isinstance(res, Abort) and len(res[0]) == 4:
        sx.prove(sx.eq_bytes(sx.mkbytes(res[0]), sx.mkbytes(le32(v))), "the written node serves its own value", tag + "/own")
    sx.reach("shared-od")


def download_history(n, m, modes):
    """every download stands for itself: what one transfer announced (a size, or none) has no bearing on the next -
    two downloads in a row (same or another entry, either order of sized / unsized, shorter and longer), each stored
    and uploaded exactly"""
    rig = ServerRig(sdo_od())
    cli = RefClient(rig.deliver, "C02")
    seen = []
    rig.node.add_write_callback(lambda index, subindex, od, data: seen.append((index, sx.mkbytes(list(sx.items(data))))))
    a, b = sx.fresh_bytes("a", n), sx.fresh_bytes("b", m)
    second_idx = 0x2000 if sx.choice(2, "same") else 0x2001
    tag = "C02/download-history/%s" % modes
    for k, (idx, val, mode) in enumerate(((0x2000, a, modes.split("+")[0]), (second_idx, b, modes.split("+")[1]))):
        r = cli.download(idx, 0, sx.items(val), mode)
        sx.prove(r is None, "download refused", tag + "/refused")
        if r is not None:
            return
        st = rig.node.data_store[idx][0]
        sx.prove(len(sx.items(st)) == len(sx.items(val)) and sx.eq_bytes(st, val) is not False, "stored length", tag + "/stored-length")
        if len(sx.items(st)) == len(sx.items(val)):
            sx.prove(sx.eq_bytes(st, val), "stored bytes", tag + "/stored")
        sx.prove(len(seen) == k + 1 and sx.eq_bytes(seen[-1][1], val) is not False, "write callback saw the payload",
                 tag + "/callback")
        res = cli.upload(idx, 0)
        ok = res is not None and not isinstance(res, Abort)
        sx.prove(ok and len(res[0]) == len(sx.items(val)) and sx.eq_bytes(sx.mkbytes(res[0]), val) is not False,
                 "upload after the download", tag + "/upload-length")
        if ok and len(res[0]) == len(sx.items(val)):
            sx.prove(sx.eq_bytes(sx.mkbytes(res[0]), val), "uploaded bytes", tag + "/upload")
    sx.reach("download-history")


def jobs(tier):
    out = []
    for when in ("before", "after"):
        out.append(dict(func="shared_dictionary", params=dict(when=when)))
    for n, m in ((6, 13), (13, 6), (9, 9), (20, 5), (5, 20)):
        for modes in ("seg-size+seg-nosize", "seg-nosize+seg-size", "seg-size+seg-size", "seg-nosize+seg-nosize"):
            out.append(dict(func="download_history", params=dict(n=n, m=m, modes=modes)))
    for n, m in ((11, 9), (8, 15), (5, 22), (15, 15)):
        out.append(dict(func="two_servers", params=dict(n=n, m=m)))
    for order in ("mo", "om", "omo", "oom"):
        out.append(dict(func="two_read_callbacks", params=dict(order=order)))
    q = tier == "quick"
    for direction in ("upload", "download"):
        out.append(dict(func="local_read_during_transfer", params=dict(direction=direction)))
    for n, m in ((0, 9), (0, 3), (3, 9), (9, 0), (9, 20), (0, 0)) + (() if q else ((0, 64), (4, 5), (5, 4), (7, 8), (20, 9))):
        out.append(dict(func="after_other_transfer", params=dict(n=n, m=m)))
    lens = list(range(0, 17)) + [20, 21, 22, 28, 64] if q else list(range(0, 65)) + [127, 1000]
    for n in lens:
        for kind in ("dom", "oct", "recdom"):
            if kind != "dom" and n > 22:
                continue
            for src in ("default", "value", "store", "callback"):
                out.append(dict(func="upload_value", params=dict(kind=kind, sources=src, n=n), weight=n + 1))
        if n in (0, 3, 4, 5, 7, 8, 15):
            for src in ("value+default", "store+value", "callback+store", "callback+default", "store+default"):
                out.append(dict(func="upload_value", params=dict(kind="dom", sources=src, n=n)))
        for mode in ("exp-size", "exp-nosize", "seg-size", "seg-nosize"):
            if mode == "exp-size" and not 1 <= n <= 4:
                continue
            if mode == "exp-nosize" and n != 4:
                continue
            for last in (("full", "empty") if mode.startswith("seg") and n > 0 else ("full",)):
                for kind in ("dom", "recdom"):
                    out.append(dict(func="download_value", params=dict(kind=kind, n=n, mode=mode, last=last),
                                    weight=n + 1))
    for code in NUMS:
        w = S301.width(code) // 8
        for src in ("default", "value", "store", "callback", "value+default", "callback+store"):
            out.append(dict(func="upload_value", params=dict(kind=str(code), sources=src)))
        for mode in ("exp-size", "exp-nosize", "seg-size", "seg-nosize"):
            if mode == "exp-size" and w > 4 or mode == "exp-nosize" and w != 4:
                continue
            out.append(dict(func="download_value", params=dict(kind=str(code), n=w, mode=mode)))
    for kind in ("rec", "arr", "arrdyn"):
        for src in ("default", "value", "store", "callback"):
            if kind == "arrdyn" and src == "value":
                continue        # dynamically created array members inherit the default, not ParameterValue
            out.append(dict(func="upload_value", params=dict(kind=kind, sources=src)))
        out.append(dict(func="download_value", params=dict(kind=kind, n=2, mode="exp-size")))
    for L in range(1, 9):
        for bufm in (None, 0, 1, 6, 7, 8, 15):
            for unset in (False, True):
                out.append(dict(func="robust_step", params=dict(L=L, bufm=bufm, unset=unset), weight=5))
    for k in range(0, (2 if q else 3) + 1):
        for tail in ("download", "upload"):
            if k < 2:
                out.append(dict(func="robust_history", params=dict(k=k, tail=tail), weight=40 ** k))
            else:
                for c in range(8):
                    out.append(dict(func="robust_history", params=dict(k=k, tail=tail, ccs0=c), weight=40 ** k))
    for n in (5, 7, 8, 14):
        out.append(dict(func="interleaved", params=dict(n=n)))
    for n in (5, 9):
        for small in (1, 2, 3, 4):
            out.append(dict(func="upload_interrupts", params=dict(n=n, small=small), weight=30))
    out.append(dict(func="two_members", params={}))
    for n in (3, 10, 14):
        for k in (1, 2):
            out.append(dict(func="stray_after", params=dict(n=n, k=k), weight=30 ** k))
    return out


META = dict(
    level_text="Bounded symbolic execution of the real SdoServer and LocalNode.get_data/set_data, driven through "
               "Network.notify by an independent CiA 301 reference client that checks every response frame: values "
               "symbolic (numeric over the whole type range, byte strings of concrete length with symbolic content "
               "incl. the empty value), all four value sources and their precedence, all four download styles; an "
               "inductive robustness step (arbitrary frame of 1..8 symbolic bytes from an arbitrary server state, "
               "including the freshly created one) and bounded histories of arbitrary frames from a fresh node.",
    level_note="Server state invariant for the step: _buffer is None or a bytearray, _toggle in {0,0x10}, "
               "_downloading any flag consistent with it, _index/_subindex unset (fresh node) or any 16/8-bit value. Trusted: z3, struct/bytes/dict models "
               "(native witness runs).",
    bounds=dict(quick="value lengths 0..16,20,21,22,28,64; 8 numeric types over their whole range; record/array members; "
                      "robust step: frame length 1..8 x buffer length {None,0,1,6,7,8,15} x index set/unset; histories "
                      "of k<=2 arbitrary frames + a valid transfer",
                thorough="every length 0..64, 127, 1000; histories k<=3"),
    outside_bounds=["values of ~10^4 bytes (server slices a concrete-length buffer; no symbolic-length induction)",
                    "block transfer (the server answers with an abort / falls back)",
                    "more than 3 arbitrary frames in a row (covered by the step under the stated invariant)"],
    assumptions=["reference client written from CiA 301 7.2.4.3"],
    stubs=["struct", "bytes/bytearray", "dict displays -> SymDict", "logging", "Network.send_message replaced on the instance"],
    required_reach=["download-history", "shared-od", "two-servers", "two-callbacks", "upload-callback", "upload-store", "upload-value", "upload-default", "upload-empty",
                    "upload-segmented", "download-exp-size", "download-exp-nosize", "download-seg-size",
                    "download-seg-nosize", "robust-step", "abort-request", "robust-history", "interleaved", "after-other", "local-read", "stray", "upload-interrupts", "two-members"],
    limits=dict(quick=dict(max_decisions=20000), thorough=dict(max_decisions=20000, job_timeout_s=3000)),
    validate_every=dict(quick=5, thorough=50),
    max_validate=dict(quick=60, thorough=60),
)
